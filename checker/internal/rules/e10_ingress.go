package rules

import (
	"fmt"
	"go/ast"
	"go/token"
	"go/types"
	"sort"
	"strings"

	"golang.org/x/tools/go/ssa"

	"npverif/internal/core"
	"npverif/internal/facts"
)

// E10b — the Ingress/Route -> Service -> workload chain (C10).

// flattenAnd splits a conjunction.
func flattenAnd(e ast.Expr) []ast.Expr {
	e = ast.Unparen(e)
	if be, ok := e.(*ast.BinaryExpr); ok && be.Op == token.LAND {
		return append(flattenAnd(be.X), flattenAnd(be.Y)...)
	}
	return []ast.Expr{e}
}

// dnf flattens `a || b && c || d` (Go precedence) into disjuncts of conjunct lists.
func dnf(e ast.Expr) [][]ast.Expr {
	var out [][]ast.Expr
	for _, d := range flattenOr(e) {
		out = append(out, flattenAnd(d))
	}
	return out
}

func fieldPathEndsWith(info *types.Info, e ast.Expr, owner, field string) bool {
	se, ok := ast.Unparen(e).(*ast.SelectorExpr)
	if !ok {
		return false
	}
	f := core.FieldOf(info, se)
	if f == nil || f.Name() != field {
		return false
	}
	sel := info.Selections[se]
	if sel == nil {
		return false
	}
	nt := core.NamedOf(sel.Recv())
	return nt != nil && nt.Obj().Name() == owner
}

// ServicePortDesignation is C10-port: which service port a backend designates, and which pod port that yields.
func ServicePortDesignation(p *core.Program, r *core.Report, rule string) {
	fd := p.Func(core.PkgIngress, "", "getPeerAccessPort")
	if fd == nil {
		r.Add(rule, "ingressanalyzer.getPeerAccessPort: service port designation", "", core.Undecided, "the designation function was renamed or removed: re-anchor the rule")
		return
	}
	info := fd.Pkg.TypesInfo
	sig := fd.Obj.Type().(*types.Signature)
	if sig.Params().Len() < 2 {
		r.Add(rule, fd.Key()+": (service ports, required port) signature", p.Pos(fd.Decl.Pos()), core.Undecided, "unexpected signature")
		return
	}
	req := sig.Params().At(1)
	isReq := func(e ast.Expr, field string) bool {
		e = ast.Unparen(e)
		if field == "" {
			id, ok := e.(*ast.Ident)
			return ok && info.ObjectOf(id) == req
		}
		se, ok := e.(*ast.SelectorExpr)
		if !ok || se.Sel.Name != field {
			return false
		}
		id, ok := ast.Unparen(se.X).(*ast.Ident)
		return ok && info.ObjectOf(id) == req
	}
	// the range loop over the service ports
	var loop *ast.RangeStmt
	ast.Inspect(fd.Decl.Body, func(n ast.Node) bool {
		if rs, ok := n.(*ast.RangeStmt); ok && loop == nil {
			if id, isID := ast.Unparen(rs.X).(*ast.Ident); isID && info.ObjectOf(id) == sig.Params().At(0) {
				loop = rs
			}
		}
		return true
	})
	if loop == nil {
		r.Bad(rule, fd.Key()+": iterates over the service's ports", p.Pos(fd.Decl.Pos()), "no range over the service ports parameter")
		return
	}
	// 1. the matching condition: find the if whose condition mentions the required port and a ServicePort field
	var match *ast.IfStmt
	ast.Inspect(loop.Body, func(n ast.Node) bool {
		ifs, ok := n.(*ast.IfStmt)
		if !ok {
			return true
		}
		mentionsReq, mentionsSvc := false, false
		ast.Inspect(ifs.Cond, func(m ast.Node) bool {
			if id, ok := m.(*ast.Ident); ok && info.ObjectOf(id) == req {
				mentionsReq = true
			}
			if se, ok := m.(*ast.SelectorExpr); ok {
				if f := core.FieldOf(info, se); f != nil && (f.Name() == "Port" || f.Name() == "Name") && fieldPathEndsWith(info, se, "ServicePort", f.Name()) {
					mentionsSvc = true
				}
			}
			return true
		})
		if mentionsReq && mentionsSvc && match == nil {
			match = ifs
		}
		return true
	})
	if match == nil {
		r.Bad(rule, fd.Key()+": a specified backend port is matched against the service ports", p.Pos(loop.Pos()), "no condition comparing the required port with a service port's name/number")
		return
	}
	var haveName, havePort, haveTarget, targetGuarded bool
	var unknown []string
	for _, conj := range dnf(match.Cond) {
		kind := ""
		hasDiscriminator := false
		nonEmptyName := false
		for _, a := range conj {
			a = ast.Unparen(a)
			be, ok := a.(*ast.BinaryExpr)
			if !ok {
				// a boolean value: a discriminator (e.g. "this port comes from a Route")
				if tv, ok := info.Types[a]; ok && tv.Type != nil {
					if b, isB := tv.Type.Underlying().(*types.Basic); isB && b.Kind() == types.Bool {
						hasDiscriminator = true
						continue
					}
				}
				kind = "?" + core.ExprStr(a)
				continue
			}
			x, y := be.X, be.Y
			sw := func(f func(a, b ast.Expr) bool) bool { return f(x, y) || f(y, x) }
			switch {
			case be.Op == token.EQL && sw(func(a, b ast.Expr) bool {
				return fieldPathEndsWith(info, a, "ServicePort", "Name") && isReq(b, "StrVal")
			}):
				kind = "name"
			case be.Op == token.NEQ && sw(func(a, b ast.Expr) bool {
				v, isC := core.ConstString(info, b)
				return fieldPathEndsWith(info, a, "ServicePort", "Name") && isC && v == ""
			}):
				nonEmptyName = true
			case be.Op == token.NEQ && sw(func(a, b ast.Expr) bool {
				v, isC := core.ConstString(info, b)
				return isReq(a, "StrVal") && isC && v == ""
			}):
				nonEmptyName = true
			case be.Op == token.EQL && sw(func(a, b ast.Expr) bool {
				return fieldPathEndsWith(info, a, "ServicePort", "Port") && isReq(b, "IntVal")
			}):
				kind = "port"
			case be.Op == token.EQL && sw(func(a, b ast.Expr) bool {
				return fieldPathEndsWith(info, a, "ServicePort", "TargetPort") && isReq(b, "")
			}):
				kind = "target"
			default:
				// comparisons of a discriminator (x == true, origin == route)
				mentions := false
				ast.Inspect(a, func(m ast.Node) bool {
					if id, ok := m.(*ast.Ident); ok && info.ObjectOf(id) == req {
						mentions = true
					}
					if se, ok := m.(*ast.SelectorExpr); ok && (fieldPathEndsWith(info, se, "ServicePort", "Port") || fieldPathEndsWith(info, se, "ServicePort", "Name") || fieldPathEndsWith(info, se, "ServicePort", "TargetPort")) {
						mentions = true
					}
					return true
				})
				if mentions {
					kind = "?" + core.ExprStr(a)
				} else {
					hasDiscriminator = true
				}
			}
		}
		switch {
		case kind == "name":
			if nonEmptyName {
				haveName = true
			} else {
				unknown = append(unknown, "name comparison without the non-empty guard (an unnamed service port would match a numeric backend port)")
			}
		case kind == "port":
			havePort = true
		case kind == "target":
			haveTarget = true
			targetGuarded = hasDiscriminator
		default:
			var parts []string
			for _, a := range conj {
				parts = append(parts, core.ExprStr(a))
			}
			unknown = append(unknown, strings.Join(parts, " && "))
		}
	}
	r.Check(haveName, rule, fd.Key()+": a backend port name designates the service port of that (non-empty) name", p.Pos(match.Pos()), "svcPort.Name != \"\" && svcPort.Name == required.StrVal", "the match condition has no (guarded) comparison of the service port's name with the required name")
	r.Check(havePort, rule, fd.Key()+": a backend port number designates the service port with that number", p.Pos(match.Pos()), "svcPort.Port == required.IntVal", "the match condition has no comparison of the service port's number with the required number")
	r.Check(len(unknown) == 0, rule, fd.Key()+": no other way to designate a service port", p.Pos(match.Pos()), "", "the match condition has further disjuncts: "+strings.Join(unknown, " | "))
	if haveTarget {
		r.Check(targetGuarded, rule, fd.Key()+": matching a required port against the service port's targetPort is restricted to Route-designated ports", p.Pos(match.Pos()), "the targetPort comparison is conjoined with an origin discriminator",
			"`svcPort.TargetPort == requiredPort` is applied to every required port, including the port number of a k8s Ingress backend (getServiceInfo builds it with the zero Type, i.e. as a number): an Ingress backend `port: {number: N}` designates a service port whose *targetPort* is N even when its `port` differs, instead of the service port numbered N (or none)")
	}
	// 2. the pod access port: targetPort, defaulting to the port
	{
		var okTarget, okDefault bool
		ast.Inspect(loop.Body, func(n ast.Node) bool {
			as, ok := n.(*ast.AssignStmt)
			if !ok || len(as.Lhs) != 1 || len(as.Rhs) != 1 {
				return true
			}
			if fieldPathEndsWith(info, as.Rhs[0], "ServicePort", "TargetPort") {
				// under "targetPort is set"
				fm, _, found := FactsAt(fd, as, nil)
				if found {
					txt := facts.StripVersions(facts.String(fm))
					okTarget = strings.Contains(txt, "TargetPort.IntVal==0") && strings.Contains(txt, "TargetPort.StrVal")
				}
			}
			if fieldPathEndsWith(info, as.Rhs[0], "ServicePort", "Port") {
				if se, isSe := ast.Unparen(as.Lhs[0]).(*ast.SelectorExpr); isSe && se.Sel.Name == "IntVal" {
					okDefault = true
				}
			}
			return true
		})
		r.Check(okTarget && okDefault, rule, fd.Key()+": the pod port is the service port's targetPort, defaulting to its port", p.Pos(loop.Pos()), "", "the access port is no longer `targetPort if set else port`")
	}
	// 3. an unspecified required port selects all service ports
	{
		s := core.ExprStr(fd.Decl.Body)
		r.Check(strings.Contains(s, "IntVal == 0 && ") && strings.Contains(s, `StrVal == ""`), rule, fd.Key()+": an unspecified backend port (Route without port) selects every service port", p.Pos(fd.Decl.Pos()), "", "the empty-required-port test changed")
	}
	// 4. how an Ingress backend's port is turned into the required port
	if gs := p.Func(core.PkgIngress, "", "getServiceInfo"); gs != nil {
		ginfo := gs.Pkg.TypesInfo
		var typed []string
		okName, okNum := false, false
		ast.Inspect(gs.Decl.Body, func(n ast.Node) bool {
			switch x := n.(type) {
			case *ast.CallExpr:
				if fn := core.Callee(ginfo, x); fn != nil && fn.Pkg() != nil && strings.HasSuffix(fn.Pkg().Path(), "util/intstr") {
					switch fn.Name() {
					case "FromString", "Parse":
						typed = append(typed, "intstr."+fn.Name())
						if len(x.Args) == 1 && fieldPathEndsWith(ginfo, x.Args[0], "ServiceBackendPort", "Name") {
							okName = true
						}
					case "FromInt", "FromInt32":
						if len(x.Args) == 1 {
							a := ast.Unparen(x.Args[0])
							if c, isC := a.(*ast.CallExpr); isC && core.IsConversion(ginfo, c) {
								a = c.Args[0]
							}
							if fieldPathEndsWith(ginfo, a, "ServiceBackendPort", "Number") {
								okNum = true
							}
						}
					}
				}
			case *ast.AssignStmt:
				if len(x.Lhs) == 1 && len(x.Rhs) == 1 {
					if se, ok := ast.Unparen(x.Lhs[0]).(*ast.SelectorExpr); ok {
						switch se.Sel.Name {
						case "StrVal":
							if fieldPathEndsWith(ginfo, x.Rhs[0], "ServiceBackendPort", "Name") {
								okName = true
							}
						case "IntVal":
							if fieldPathEndsWith(ginfo, x.Rhs[0], "ServiceBackendPort", "Number") {
								okNum = true
							}
						case "Type":
							typed = append(typed, "assignment of .Type")
						}
					}
				}
			case *ast.KeyValueExpr:
				if id, ok := x.Key.(*ast.Ident); ok && id.Name == "Type" {
					typed = append(typed, "literal with Type")
				}
			}
			return true
		})
		r.Check(okName && okNum, rule, gs.Key()+": the required port is the backend's port name, or else its number", p.Pos(gs.Decl.Pos()), "", "the Ingress backend's port name/number no longer flow into the required port")
		if haveTarget && !targetGuarded {
			r.Check(len(typed) == 0, rule, gs.Key()+": an Ingress backend port name is never comparable with a service targetPort name", p.Pos(gs.Decl.Pos()), "the name is stored in StrVal of a zero-Type value, which is unequal to every string-typed targetPort",
				"the Ingress backend port is built as a string-typed IntOrString ("+strings.Join(typed, ", ")+") while getPeerAccessPort compares the whole struct with the service port's targetPort: a backend port *name* now designates a service port whose targetPort has that name, whatever the service port's own name is")
		}
	} else {
		r.Lost(rule, "ingressanalyzer.getServiceInfo")
	}
	// 5. Route: the required port is the route's port.targetPort, for the primary and every alternate backend
	if gr := p.Func(core.PkgIngress, "IngressAnalyzer", "getRouteServices"); gr != nil {
		ginfo := gr.Pkg.TypesInfo
		n, okAll := 0, true
		var portVar types.Object
		ast.Inspect(gr.Decl.Body, func(nd ast.Node) bool {
			if as, ok := nd.(*ast.AssignStmt); ok && len(as.Rhs) == 1 && fieldPathEndsWith(ginfo, as.Rhs[0], "RoutePort", "TargetPort") {
				if id, isID := as.Lhs[0].(*ast.Ident); isID {
					portVar = ginfo.ObjectOf(id)
				}
			}
			return true
		})
		ast.Inspect(gr.Decl.Body, func(nd ast.Node) bool {
			cl, ok := nd.(*ast.CompositeLit)
			if !ok {
				return true
			}
			if nt := core.NamedOf(ginfo.TypeOf(cl)); nt == nil || nt.Obj().Name() != "serviceInfo" {
				return true
			}
			n++
			got := false
			for _, el := range cl.Elts {
				if kv, isKV := el.(*ast.KeyValueExpr); isKV && core.ExprStr(kv.Key) == "servicePort" {
					if id, isID := ast.Unparen(kv.Value).(*ast.Ident); isID && portVar != nil && ginfo.ObjectOf(id) == portVar {
						got = true
					}
				}
			}
			if !got {
				okAll = false
			}
			return true
		})
		r.Check(n >= 2 && okAll && portVar != nil, rule, gr.Key()+": `to` and every alternate backend carry the route's port.targetPort", p.Pos(gr.Decl.Pos()), fmt.Sprintf("%d backend literals", n), "a Route backend no longer carries the route's port.targetPort")
	} else {
		r.Lost(rule, "(*IngressAnalyzer).getRouteServices")
	}
	r.Floor(rule, 7)
}

// IngressTCPOnly is C10-tcp: only TCP container ports of the workload, reached through the designated port; named target ports are resolved on the same workload.
func IngressTCPOnly(p *core.Program, r *core.Report, rule string) {
	fd := p.Func(core.PkgIngress, "IngressAnalyzer", "getIngressPeerConnection")
	if fd == nil {
		r.Add(rule, "(*IngressAnalyzer).getIngressPeerConnection", "", core.Undecided, "renamed or removed: re-anchor the rule")
		return
	}
	info := fd.Pkg.TypesInfo
	sig := fd.Obj.Type().(*types.Signature)
	peer := sig.Params().At(0)
	isPeer := func(e ast.Expr) bool {
		id, ok := ast.Unparen(e).(*ast.Ident)
		return ok && info.ObjectOf(id) == peer
	}
	isTCP := func(e ast.Expr) bool {
		e = ast.Unparen(e)
		if c, ok := e.(*ast.CallExpr); ok && core.IsConversion(info, c) && len(c.Args) == 1 {
			e = ast.Unparen(c.Args[0])
		}
		tv := info.Types[e]
		return tv.Value != nil && tv.Value.ExactString() == `"TCP"`
	}
	var exposedOfPeer, containsTCP, addTCP, namedOnPeer bool
	var addCall, containsCall, namedCall *ast.CallExpr
	var exposedVar types.Object
	ast.Inspect(fd.Decl.Body, func(n ast.Node) bool {
		switch x := n.(type) {
		case *ast.AssignStmt:
			if len(x.Rhs) == 1 {
				if nm, c := callName(info, x.Rhs[0]); nm == "GetPeerExposedTCPConnections" && len(c.Args) == 1 && isPeer(c.Args[0]) {
					exposedOfPeer = true
					if id, ok := x.Lhs[0].(*ast.Ident); ok {
						exposedVar = info.ObjectOf(id)
					}
				}
			}
		case *ast.CallExpr:
			fn := core.Callee(info, x)
			if fn == nil {
				return true
			}
			switch fn.Name() {
			case "Contains":
				if se, ok := ast.Unparen(x.Fun).(*ast.SelectorExpr); ok && len(x.Args) == 2 {
					if id, isID := ast.Unparen(se.X).(*ast.Ident); isID && exposedVar != nil && info.ObjectOf(id) == exposedVar && isTCP(x.Args[1]) {
						containsTCP = true
						containsCall = x
					}
				}
			case "AddConnection":
				if len(x.Args) == 2 && isTCP(x.Args[0]) {
					addTCP = true
					addCall = x
				} else {
					addTCP = false
					addCall = x
				}
			case "ConvertPeerNamedPort":
				if len(x.Args) == 2 && isPeer(x.Args[1]) {
					namedOnPeer = true
					namedCall = x
				}
			}
		}
		return true
	})
	r.Check(exposedOfPeer && containsTCP, rule, fd.Key()+": a port is granted only if it is a TCP container port of the same workload", p.Pos(fd.Decl.Pos()), "GetPeerExposedTCPConnections(peer).Contains(port, TCP)", "the workload's exposed TCP ports are no longer consulted for the same peer / protocol TCP")
	r.Check(addTCP, rule, fd.Key()+": the granted connection is TCP", p.Pos(fd.Decl.Pos()), "", "a non-TCP connection is added")
	// the AddConnection is dominated by the Contains test
	if addCall != nil && containsCall != nil {
		fm, _, found := FactsAt(fd, addCall, nil)
		ok := false
		if found {
			for _, a := range facts.Atoms(fm) {
				if strings.Contains(a, ".Contains(") && facts.Entails(fm, facts.Atom(a)) {
					ok = true
				}
			}
		}
		r.Check(ok, rule, fd.Key()+": the connection is added only under the containment test", p.Pos(addCall.Pos()), "", "AddConnection is no longer guarded by peerTCPConn.Contains(...)")
	}
	r.Check(namedOnPeer, rule, fd.Key()+": a named target port is resolved on the workload the line is about", p.Pos(fd.Decl.Pos()), "pe.ConvertPeerNamedPort(name, peer)", "the named target port is not resolved through ConvertPeerNamedPort on the same peer (a per-name memo or another workload's ports would mix workloads)")
	// non-TCP / missing named port is skipped
	if namedCall != nil {
		as, _ := enclosingStmt(fd.Decl.Body, namedCall.Pos()).(*ast.AssignStmt)
		ok := false
		if as != nil && len(as.Lhs) == 3 {
			protoID, _ := as.Lhs[0].(*ast.Ident)
			numID, _ := as.Lhs[1].(*ast.Ident)
			// find `if protocol != TCP || portInt < 0 { continue }`
			ast.Inspect(fd.Decl.Body, func(n ast.Node) bool {
				ifs, isIf := n.(*ast.IfStmt)
				if !isIf || len(ifs.Body.List) == 0 {
					return true
				}
				br, isBr := ifs.Body.List[len(ifs.Body.List)-1].(*ast.BranchStmt)
				if !isBr || br.Tok != token.CONTINUE {
					return true
				}
				ds := flattenOr(ifs.Cond)
				var hasProto, hasNeg bool
				for _, d := range ds {
					be, isBE := ast.Unparen(d).(*ast.BinaryExpr)
					if !isBE {
						continue
					}
					if id, isID := ast.Unparen(be.X).(*ast.Ident); isID {
						if protoID != nil && info.ObjectOf(id) == info.ObjectOf(protoID) && be.Op == token.NEQ && isTCP(be.Y) {
							hasProto = true
						}
						if numID != nil && info.ObjectOf(id) == info.ObjectOf(numID) && be.Op == token.LSS && core.ExprStr(be.Y) == "0" {
							hasNeg = true
						}
					}
				}
				if hasProto && hasNeg {
					ok = true
				}
				return true
			})
		}
		r.Check(ok, rule, fd.Key()+": a named port that is missing on the workload, or not TCP, grants nothing", p.Pos(namedCall.Pos()), "protocol != TCP || port < 0 -> continue", "the skip of non-TCP / unresolved named ports changed")
	}
	// the filter of container ports by protocol depends on the element
	if pf := p.Func(core.PkgK8s, "Pod", "PodExposedTCPConnections"); pf != nil {
		pinfo := pf.Pkg.TypesInfo
		var rs *ast.RangeStmt
		ast.Inspect(pf.Decl.Body, func(n ast.Node) bool {
			if x, ok := n.(*ast.RangeStmt); ok && rs == nil {
				rs = x
			}
			return true
		})
		ok := false
		why := "no loop over the container ports"
		if rs != nil {
			var elem types.Object
			if id, isID := rs.Value.(*ast.Ident); isID {
				elem = pinfo.ObjectOf(id)
			} else if id, isID := rs.Key.(*ast.Ident); isID {
				elem = pinfo.ObjectOf(id)
			}
			why = "no protocol test on the element"
			ast.Inspect(rs.Body, func(n ast.Node) bool {
				ifs, isIf := n.(*ast.IfStmt)
				if !isIf {
					return true
				}
				protoReads := 0
				ast.Inspect(ifs.Cond, func(m ast.Node) bool {
					if se, isSe := m.(*ast.SelectorExpr); isSe && fieldPathEndsWith(pinfo, se, "ContainerPort", "Protocol") {
						if id := core.RootIdent(se); id != nil && (pinfo.ObjectOf(id) == elem || elem == nil) {
							protoReads++
						}
					}
					return true
				})
				// every disjunct must read the element's protocol
				all := true
				for _, d := range flattenOr(ifs.Cond) {
					reads := false
					ast.Inspect(d, func(m ast.Node) bool {
						if se, isSe := m.(*ast.SelectorExpr); isSe && fieldPathEndsWith(pinfo, se, "ContainerPort", "Protocol") {
							reads = true
						}
						return true
					})
					if !reads {
						all = false
					}
				}
				if protoReads > 0 && all {
					ok = true
				} else if protoReads == 0 || !all {
					why = "a disjunct of the protocol filter does not depend on the container port: `" + core.ExprStr(ifs.Cond) + "`"
				}
				return true
			})
		}
		r.Check(ok, rule, pf.Key()+": the TCP filter of container ports tests each port's own protocol", p.Pos(pf.Decl.Pos()), "", why)
	} else {
		r.Lost(rule, "(*Pod).PodExposedTCPConnections")
	}
	r.Floor(rule, 6)
}

// IngressPolicyIntersection is C10-policy.
func IngressPolicyIntersection(p *core.Program, r *core.Report, rule string) {
	fd := p.Func(core.PkgConnlist, "ConnlistAnalyzer", "getIngressAllowedConnections")
	if fd == nil {
		r.Add(rule, "(*ConnlistAnalyzer).getIngressAllowedConnections", "", core.Undecided, "renamed or removed: re-anchor the rule")
		return
	}
	sf := p.SSAFunc(fd)
	if sf == nil {
		r.Lost(rule, "SSA of getIngressAllowedConnections")
		return
	}
	var addPod, allowed, inter, isEmpty, warn, create *ssa.Call
	for _, b := range sf.Blocks {
		for _, in := range b.Instrs {
			c, ok := in.(*ssa.Call)
			if !ok {
				continue
			}
			_, n := ssaCalleeName(c.Common())
			switch n {
			case "AddPodByNameAndNamespace":
				addPod = c
			case "AllAllowedConnectionsBetweenWorkloadPeers":
				allowed = c
			case "Intersection":
				inter = c
			case "IsEmpty":
				isEmpty = c
			case "warnBlockedIngress":
				warn = c
			case "createConnectionObject":
				create = c
			}
		}
	}
	if addPod == nil || allowed == nil || inter == nil || isEmpty == nil || warn == nil || create == nil {
		r.Add(rule, fd.Key()+": fake pod, policy verdict, intersection, emptiness test, warning and row construction", p.Pos(fd.Decl.Pos()), core.Undecided, "one of the six calls was not found: re-anchor the rule")
		return
	}
	// fake pod: constants
	{
		ok := len(addPod.Call.Args) == 3
		if ok {
			for _, a := range addPod.Call.Args[1:] {
				if _, isK := a.(*ssa.Const); !isK {
					ok = false
				}
			}
		}
		r.Check(ok, rule, fd.Key()+": the ingress controller is a fixed fake pod", p.Pos(addPod.Pos()), "constant name and namespace", "the ingress-controller pod's name/namespace are not the constants")
	}
	ingressPod := func(v ssa.Value) bool {
		ex, ok := v.(*ssa.Extract)
		return ok && ex.Tuple == ssa.Value(addPod) && ex.Index == 0
	}
	// the peer: field Peer of the ranged entry
	peerOf := func(v ssa.Value) ssa.Value {
		// load of FieldAddr(entry, Peer)
		if u, ok := v.(*ssa.UnOp); ok {
			if fa, ok := u.X.(*ssa.FieldAddr); ok {
				return fa.X
			}
		}
		return nil
	}
	setOf := func(v ssa.Value) ssa.Value {
		if u, ok := v.(*ssa.UnOp); ok {
			if fa, ok := u.X.(*ssa.FieldAddr); ok {
				return fa.X
			}
		}
		return nil
	}
	entry := peerOf(allowed.Call.Args[2])
	okVerdict := len(allowed.Call.Args) == 3 && ingressPod(allowed.Call.Args[1]) && entry != nil
	r.Check(okVerdict, rule, fd.Key()+": the policy verdict is computed from the ingress-controller pod to the targeted workload", p.Pos(allowed.Pos()), "", "AllAllowedConnectionsBetweenWorkloadPeers is not called with (fake pod, targeted peer)")
	// Intersection: receiver = entry's ConnSet, operand = verdict result #0
	okInter := false
	if len(inter.Call.Args) == 2 {
		ex, isEx := inter.Call.Args[1].(*ssa.Extract)
		okInter = setOf(inter.Call.Args[0]) == entry && isEx && ex.Tuple == ssa.Value(allowed) && ex.Index == 0
	}
	r.Check(okInter, rule, fd.Key()+": the ingress connections of a workload are intersected with the policy verdict for the same workload", p.Pos(inter.Pos()), "", "the Intersection does not combine the entry's own set with the verdict computed for that entry's peer")
	// row: built from the same entry's set and peer, src = fake pod, after the intersection, under !IsEmpty
	okRow := len(create.Call.Args) == 3 && setOf(stripIface(create.Call.Args[0])) == entry && ingressPod(stripIface(create.Call.Args[1])) && peerOf(stripIface(create.Call.Args[2])) == entry
	okRow = okRow && inter.Block().Dominates(create.Block()) && setOf(isEmpty.Call.Args[0]) == entry
	if okRow {
		// the create block is the false successor of the IsEmpty test
		ib := isEmpty.Block()
		iff, isIf := ib.Instrs[len(ib.Instrs)-1].(*ssa.If)
		okRow = isIf && iff.Cond == ssa.Value(isEmpty) && ib.Succs[1].Dominates(create.Block()) && ib.Succs[0].Dominates(warn.Block()) && !ib.Succs[0].Dominates(create.Block())
		// the warning arm goes back to the loop head (continue): it never reaches the row construction
		for _, s := range warn.Block().Succs {
			if !s.Dominates(ib) {
				okRow = false
			}
		}
	}
	r.Check(okRow, rule, fd.Key()+": a line is reported exactly for a non-empty intersection, from the fake pod to that workload; an empty one yields the warning", p.Pos(create.Pos()), "", "row construction / warning are not the two arms of the emptiness test of the intersected set")
	// warnBlockedIngress names the blocked objects of the same entry
	okWarn := len(warn.Call.Args) == 3 && setOf(warn.Call.Args[2]) == entry
	r.Check(okWarn, rule, fd.Key()+": the warning names the Ingress/Route objects of the blocked workload", p.Pos(warn.Pos()), "", "warnBlockedIngress does not receive the entry's own IngressObjects")
	// the warning is recorded as a warning
	if wf := p.Func(core.PkgConnlist, "ConnlistAnalyzer", "warnBlockedIngress"); wf != nil {
		winfo := wf.Pkg.TypesInfo
		ok := false
		ast.Inspect(wf.Decl.Body, func(n ast.Node) bool {
			if c, isC := n.(*ast.CallExpr); isC && core.IsBuiltinCall(winfo, c, "append") && len(c.Args) == 2 {
				if nm, _ := callName(winfo, c.Args[1]); nm == "newConnlistAnalyzerWarning" {
					ok = true
				}
			}
			return true
		})
		r.Check(ok, rule, wf.Key()+": records a warning in Errors()", p.Pos(wf.Decl.Pos()), "", "the blocked-ingress warning is no longer appended to the analyzer's errors as a warning")
	}
	// the fake pod: unlabeled, no owner, no ports, namespace resolved as a default namespace object
	if af := p.Func(core.PkgEval, "PolicyEngine", "AddPodByNameAndNamespace"); af != nil {
		ainfo := af.Pkg.TypesInfo
		var keys []string
		resolves := false
		collect := func(fd *core.FuncDecl) {
			finfo := fd.Pkg.TypesInfo
			ast.Inspect(fd.Decl.Body, func(n ast.Node) bool {
				if cl, ok := n.(*ast.CompositeLit); ok {
					if nt := core.NamedOf(finfo.TypeOf(cl)); nt != nil && nt.Obj().Name() == "Pod" {
						for _, el := range cl.Elts {
							if kv, isKV := el.(*ast.KeyValueExpr); isKV {
								keys = append(keys, core.ExprStr(kv.Key))
							}
						}
					}
				}
				return true
			})
		}
		collect(af)
		ast.Inspect(af.Decl.Body, func(n ast.Node) bool {
			if c, ok := n.(*ast.CallExpr); ok {
				if fn := core.Callee(ainfo, c); fn != nil {
					if fn.Name() == "resolveSingleMissingNamespace" {
						resolves = true
					}
					// the pod may be built by a constructor of package k8s
					if cfd := p.ByObj[fn]; cfd != nil && cfd.Pkg.PkgPath == core.PkgK8s {
						collect(cfd)
					}
				}
			}
			return true
		})
		sort.Strings(keys)
		allowed := map[string]bool{"FakePod": true, "Name": true, "Namespace": true, "IngressExposureData": true, "EgressExposureData": true}
		need := map[string]bool{"FakePod": false, "Name": false, "Namespace": false}
		okKeys := true
		for _, k := range keys {
			if !allowed[k] {
				okKeys = false
			}
			if _, isNeed := need[k]; isNeed {
				need[k] = true
			}
		}
		for _, v := range need {
			if !v {
				okKeys = false
			}
		}
		r.Check(okKeys && resolves, rule, af.Key()+": the fake pod has no labels, owner or ports and its namespace is a default namespace object", p.Pos(af.Decl.Pos()), strings.Join(keys, ","), "the fake ingress-controller pod is built with the fields "+strings.Join(keys, ",")+" (it must be an arbitrary unlabeled pod of an unknown namespace: name, namespace, the fake flag and empty exposure data only)")
	} else {
		r.Lost(rule, "(*PolicyEngine).AddPodByNameAndNamespace")
	}
	r.Floor(rule, 7)
}

// IngressNamespaceScoping is C10-ns: service lookup under the Ingress/Route namespace; selection among the service namespace's workloads; merging by Union.
func IngressNamespaceScoping(p *core.Program, r *core.Report, rule string) {
	// map stores: m[obj.Namespace][obj.Name]
	type st struct{ fn, m, obj string }
	for _, s := range []st{{"mapServiceToPeers", "servicesToPortsAndPeersMap", "svc"}, {"mapRouteToServices", "routesToServicesMap", "rt"}, {"mapK8sIngressToServices", "k8sIngressToServicesMap", "ing"}} {
		fd := p.Func(core.PkgIngress, "IngressAnalyzer", s.fn)
		if fd == nil {
			r.Lost(rule, "(*IngressAnalyzer)."+s.fn)
			continue
		}
		info := fd.Pkg.TypesInfo
		prm := fd.Obj.Type().(*types.Signature).Params().At(0)
		ok := false
		ast.Inspect(fd.Decl.Body, func(n ast.Node) bool {
			as, isAs := n.(*ast.AssignStmt)
			if !isAs || len(as.Lhs) != 1 {
				return true
			}
			ix, isIx := ast.Unparen(as.Lhs[0]).(*ast.IndexExpr)
			if !isIx {
				return true
			}
			ix2, isIx2 := ast.Unparen(ix.X).(*ast.IndexExpr)
			if !isIx2 {
				return true
			}
			f := core.FieldOf(info, ix2.X)
			if f == nil || f.Name() != s.m {
				return true
			}
			isObjField := func(e ast.Expr, name string) bool {
				se, isSe := ast.Unparen(e).(*ast.SelectorExpr)
				if !isSe || se.Sel.Name != name {
					return false
				}
				id, isID := ast.Unparen(se.X).(*ast.Ident)
				return isID && info.ObjectOf(id) == prm
			}
			if isObjField(ix2.Index, "Namespace") && isObjField(ix.Index, "Name") {
				ok = true
			}
			return true
		})
		r.Check(ok, rule, fd.Key()+": stored under the object's own namespace and name", p.Pos(fd.Decl.Pos()), s.m+"[obj.Namespace][obj.Name]", "the object is no longer stored under [its namespace][its name]")
	}
	// GetSelectedPeers(selector, svc.Namespace) of the same service; the engine filters by namespace equality
	if fd := p.Func(core.PkgIngress, "IngressAnalyzer", "getServiceSelectedPeers"); fd != nil {
		info := fd.Pkg.TypesInfo
		prm := fd.Obj.Type().(*types.Signature).Params().At(0)
		ok, okSel := false, false
		ast.Inspect(fd.Decl.Body, func(n ast.Node) bool {
			c, isC := n.(*ast.CallExpr)
			if !isC {
				return true
			}
			fn := core.Callee(info, c)
			if fn == nil {
				return true
			}
			if fn.Name() == "GetSelectedPeers" && len(c.Args) == 2 {
				if se, isSe := ast.Unparen(c.Args[1]).(*ast.SelectorExpr); isSe && se.Sel.Name == "Namespace" {
					if id, isID := ast.Unparen(se.X).(*ast.Ident); isID && info.ObjectOf(id) == prm {
						ok = true
					}
				}
			}
			if fn.Name() == "convertServiceSelectorToLabelSelector" && len(c.Args) == 1 && fieldPathEndsWith(info, c.Args[0], "ServiceSpec", "Selector") {
				okSel = true
			}
			return true
		})
		r.Check(ok && okSel, rule, fd.Key()+": workloads are selected by the service's selector within the service's namespace", p.Pos(fd.Decl.Pos()), "", "GetSelectedPeers is not called with (the service's selector, the service's namespace)")
	}
	if fd := p.Func(core.PkgEval, "PolicyEngine", "GetSelectedPeers"); fd != nil {
		info := fd.Pkg.TypesInfo
		sig := fd.Obj.Type().(*types.Signature)
		nsP, selP := sig.Params().At(1), sig.Params().At(0)
		var okNs, okMatch bool
		var appendCall *ast.CallExpr
		ast.Inspect(fd.Decl.Body, func(n ast.Node) bool {
			if c, ok := n.(*ast.CallExpr); ok && core.IsBuiltinCall(info, c, "append") {
				appendCall = c
			}
			return true
		})
		if appendCall != nil {
			fm, _, found := FactsAt(fd, appendCall, nil)
			if found {
				for _, a := range facts.Atoms(fm) {
					s := facts.StripVersions(a)
					if strings.HasPrefix(s, "cmp:") && strings.Contains(s, ".Namespace()") && strings.Contains(s, nsP.Name()) && strings.Contains(s, "!=") && facts.Entails(fm, facts.Not{X: facts.Atom(a)}) {
						okNs = true
					}
					if strings.HasPrefix(s, "eq:") && strings.Contains(s, ".Namespace()") && strings.Contains(s, nsP.Name()+"==") && facts.Entails(fm, facts.Atom(a)) {
						okNs = true
					}
					if strings.HasPrefix(s, "b:"+selP.Name()+".Matches(") && strings.Contains(s, ".Labels") && facts.Entails(fm, facts.Atom(a)) {
						okMatch = true
					}
				}
			}
		}
		r.Check(okNs && okMatch, rule, fd.Key()+": a workload is selected iff it is in the given namespace and its pod labels match", p.Pos(fd.Decl.Pos()), "", "the selection is no longer guarded by namespace equality and selector.Matches(pod labels)")
	}
	// lookup of the designated service under the Ingress/Route namespace
	if fd := p.Func(core.PkgIngress, "IngressAnalyzer", "getIngressObjectTargetedPeersAndPorts"); fd != nil {
		info := fd.Pkg.TypesInfo
		nsP := fd.Obj.Type().(*types.Signature).Params().At(0)
		ok := false
		ast.Inspect(fd.Decl.Body, func(n ast.Node) bool {
			ix, isIx := n.(*ast.IndexExpr)
			if !isIx {
				return true
			}
			ix2, isIx2 := ast.Unparen(ix.X).(*ast.IndexExpr)
			if !isIx2 {
				return true
			}
			if f := core.FieldOf(info, ix2.X); f == nil || f.Name() != "servicesToPortsAndPeersMap" {
				return true
			}
			id, isID := ast.Unparen(ix2.Index).(*ast.Ident)
			if isID && info.ObjectOf(id) == nsP && strings.HasSuffix(core.ExprStr(ix.Index), ".serviceName") {
				ok = true
			}
			return true
		})
		r.Check(ok, rule, fd.Key()+": the designated service is looked up in the Ingress/Route namespace by its name", p.Pos(fd.Decl.Pos()), "servicesToPortsAndPeersMap[ns][svc.serviceName]", "the service lookup is no longer [namespace of the Ingress/Route][designated service name]")
		// ports passed are the ports of that same service
		okPorts := false
		ast.Inspect(fd.Decl.Body, func(n ast.Node) bool {
			if c, isC := n.(*ast.CallExpr); isC {
				if fn := core.Callee(info, c); fn != nil && fn.Name() == "getIngressPeerConnection" && len(c.Args) >= 3 {
					// (the element of <entry>.peers, <entry>.ports, <designation>.servicePort) where <entry> is the value
					// looked up in servicesToPortsAndPeersMap
					a1, a2 := core.ExprStr(c.Args[1]), core.ExprStr(c.Args[2])
					okPorts = strings.HasSuffix(a1, ".ports") && strings.HasSuffix(a2, ".servicePort")
					if id0, isID := ast.Unparen(c.Args[0]).(*ast.Ident); isID && okPorts {
						okPorts = false
						entry := core.RootIdent(c.Args[1])
						ast.Inspect(fd.Decl.Body, func(m ast.Node) bool {
							if rs, isRs := m.(*ast.RangeStmt); isRs && entry != nil {
								if v, isV := rs.Value.(*ast.Ident); isV && info.ObjectOf(v) == info.ObjectOf(id0) {
									if re := core.RootIdent(rs.X); re != nil && info.ObjectOf(re) == info.ObjectOf(entry) && strings.HasSuffix(core.ExprStr(rs.X), ".peers") {
										okPorts = true
									}
								}
							}
							return true
						})
					} else {
						okPorts = false
					}
				}
			}
			return true
		})
		r.Check(okPorts, rule, fd.Key()+": each selected workload is analysed with the ports of that service and the port the backend designates", p.Pos(fd.Decl.Pos()), "", "getIngressPeerConnection no longer receives (peer, that service's ports, the backend's port)")
	}
	if fd := p.Func(core.PkgIngress, "IngressAnalyzer", "allowedIngressConnectionsByResourcesType"); fd != nil {
		info := fd.Pkg.TypesInfo
		ok := false
		var outer *ast.RangeStmt
		ast.Inspect(fd.Decl.Body, func(n ast.Node) bool {
			if rs, isRs := n.(*ast.RangeStmt); isRs && outer == nil {
				outer = rs
			}
			return true
		})
		if outer != nil {
			if k, isID := outer.Key.(*ast.Ident); isID {
				ast.Inspect(outer.Body, func(n ast.Node) bool {
					if c, isC := n.(*ast.CallExpr); isC {
						if fn := core.Callee(info, c); fn != nil && fn.Name() == "getIngressObjectTargetedPeersAndPorts" && len(c.Args) == 2 {
							if id, isID := ast.Unparen(c.Args[0]).(*ast.Ident); isID && info.ObjectOf(id) == info.ObjectOf(k) {
								ok = true
							}
						}
					}
					return true
				})
			}
		}
		r.Check(ok, rule, fd.Key()+": services are resolved in the namespace the Ingress/Route objects were stored under", p.Pos(fd.Decl.Pos()), "", "the namespace passed to the service lookup is not the key of the Ingress/Route map")
	}
	// merging: a workload reached through several objects accumulates by Union
	for _, fn := range []struct{ recv, name string }{{"", "mergeResults"}, {"IngressAnalyzer", "allowedIngressConnectionsByResourcesType"}, {"IngressAnalyzer", "getIngressObjectTargetedPeersAndPorts"}} {
		fd := p.Func(core.PkgIngress, fn.recv, fn.name)
		if fd == nil {
			r.Lost(rule, "ingressanalyzer."+fn.name)
			continue
		}
		info := fd.Pkg.TypesInfo
		found, ok := false, false
		ast.Inspect(fd.Decl.Body, func(n ast.Node) bool {
			ifs, isIf := n.(*ast.IfStmt)
			if !isIf || ifs.Else == nil || ifs.Init == nil {
				return true
			}
			as, isAs := ifs.Init.(*ast.AssignStmt)
			if !isAs || len(as.Lhs) != 2 || len(as.Rhs) != 1 {
				return true
			}
			ix, isIx := ast.Unparen(as.Rhs[0]).(*ast.IndexExpr)
			if !isIx {
				return true
			}
			if !strings.Contains(types.TypeString(info.TypeOf(ix), nil), "Conn") {
				return true
			}
			found = true
			entry := core.ExprStr(ix)
			hasStore, hasUnion := false, false
			ast.Inspect(ifs, func(m ast.Node) bool {
				if a2, isA := m.(*ast.AssignStmt); isA && len(a2.Lhs) == 1 && core.ExprStr(a2.Lhs[0]) == entry {
					hasStore = true
				}
				if c, isC := m.(*ast.CallExpr); isC {
					if f := core.Callee(info, c); f != nil && f.Name() == "Union" && strings.HasPrefix(core.ExprStr(c.Fun), entry) {
						hasUnion = true
					}
				}
				return true
			})
			if hasStore && hasUnion {
				ok = true
			}
			return true
		})
		r.Check(found && ok, rule, fd.Key()+": connections of a workload reached several times are accumulated by Union", p.Pos(fd.Decl.Pos()), "if absent: store; else: Union", "the store-or-Union pattern on the per-workload entry changed: a later Ingress/Route/Service overwrites or drops the earlier ones")
	}
	r.Floor(rule, 10)
}
