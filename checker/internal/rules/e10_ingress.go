package rules

import (
	"fmt"
	"go/ast"
	"go/token"
	"go/types"
	"sort"
	"strings"

	"golang.org/x/tools/go/ssa"

	"npverif/internal/core"
	"npverif/internal/facts"
)

// E10b — the Ingress/Route -> Service -> workload chain (C10).

// flattenAnd splits a conjunction.
func flattenAnd(e ast.Expr) []ast.Expr {
	e = ast.Unparen(e)
	if be, ok := e.(*ast.BinaryExpr); ok && be.Op == token.LAND {
		return append(flattenAnd(be.X), flattenAnd(be.Y)...)
	}
	return []ast.Expr{e}
}

// dnf flattens `a || b && c || d` (Go precedence) into disjuncts of conjunct lists.
func dnf(e ast.Expr) [][]ast.Expr {
	var out [][]ast.Expr
	for _, d := range flattenOr(e) {
		out = append(out, flattenAnd(d))
	}
	return out
}

func fieldPathEndsWith(info *types.Info, e ast.Expr, owner, field string) bool {
	se, ok := ast.Unparen(e).(*ast.SelectorExpr)
	if !ok {
		return false
	}
	f := core.FieldOf(info, se)
	if f == nil || core.RefName(f) != field {
		return false
	}
	sel := info.Selections[se]
	if sel == nil {
		return false
	}
	nt := core.NamedOf(sel.Recv())
	return nt != nil && nt.Obj().Name() == owner
}

// ServicePortDesignation is C10-port: which service port a backend designates, and which pod port that yields.
func ServicePortDesignation(p *core.Program, r *core.Report, rule string) {
	fd := p.Func(core.PkgIngress, "", "getPeerAccessPort")
	if fd == nil {
		r.Add(rule, "ingressanalyzer.getPeerAccessPort: service port designation", "", core.Undecided, "the designation function was renamed or removed: re-anchor the rule")
		return
	}
	info := fd.Pkg.TypesInfo
	sig := fd.Obj.Type().(*types.Signature)
	if sig.Params().Len() < 2 {
		r.Add(rule, fd.Key()+": (service ports, required port) signature", p.Pos(fd.Decl.Pos()), core.Undecided, "unexpected signature")
		return
	}
	req := sig.Params().At(1)
	// The decision table is read off the path conditions (helpers inlined), not off one if-statement. Canonical atoms:
	//   svc:nameEq   <ServicePort>.Name == required.StrVal        svc:nameEmpty  <ServicePort>.Name == ""
	//   svc:portEq   <ServicePort>.Port == required.IntVal        svc:targetEq   <ServicePort>.TargetPort == required
	//   req:intZero  required.IntVal == 0                         req:strEmpty   required.StrVal == ""
	w := facts.NewWalker(info)
	w.Inline = true
	reqPath := func() string { return w.PathOfVar(req) }
	w.Atomize = func(w *facts.Walker, e ast.Expr) facts.Formula {
		be, ok := e.(*ast.BinaryExpr)
		if !ok || (be.Op != token.EQL && be.Op != token.NEQ) {
			return nil
		}
		in := w.Info
		isReq := func(x ast.Expr, field string) bool {
			pth := facts.StripVersions(w.Path(x))
			if field == "" {
				return pth == facts.StripVersions(reqPath())
			}
			return pth == facts.StripVersions(reqPath())+"."+field
		}
		isSvc := func(x ast.Expr, field string) bool { return fieldPathEndsWith(in, x, "ServicePort", field) }
		isConst := func(x ast.Expr, v string) bool { c, isC := core.ConstString(in, x); return isC && c == v }
		x, y := ast.Unparen(be.X), ast.Unparen(be.Y)
		var at string
		for k := 0; k < 2 && at == ""; k++ {
			switch {
			case isSvc(x, "Name") && isReq(y, "StrVal"):
				at = "svc:nameEq"
			case isSvc(x, "Name") && isConst(y, ""):
				at = "svc:nameEmpty"
			case isSvc(x, "Port") && isReq(y, "IntVal"):
				at = "svc:portEq"
			case isSvc(x, "TargetPort") && isReq(y, ""):
				at = "svc:targetEq"
			case isReq(x, "IntVal") && isConst(y, "0"):
				at = "req:intZero"
			case isReq(x, "StrVal") && isConst(y, ""):
				at = "req:strEmpty"
			}
			x, y = y, x
		}
		if at == "" {
			return nil
		}
		if be.Op == token.NEQ {
			return facts.Not{X: facts.Atom(at)}
		}
		return facts.Atom(at)
	}
	// the exits inside the loop over the service ports: a designated port was found
	var desig facts.Formula = facts.False{}
	var firstExit ast.Node
	loopSeen := false
	w.OnStmt = func(st ast.Stmt, f facts.Formula) {
		if rs, ok := st.(*ast.RangeStmt); ok {
			if id, isID := ast.Unparen(rs.X).(*ast.Ident); isID && info.ObjectOf(id) == types.Object(sig.Params().At(0)) {
				loopSeen = true
			}
		}
	}
	w.OnExit = func(st int, ret *ast.ReturnStmt, f facts.Formula) {
		if w.FuncLitDepth > 0 || ret == nil || len(w.Loops) == 0 || !facts.Satisfiable(f) {
			return
		}
		if firstExit == nil {
			firstExit = ret
		}
		desig = facts.MkOr(desig, f)
	}
	w.WalkBody(fd.Decl.Body, nil)
	if !loopSeen {
		r.Bad(rule, fd.Key()+": iterates over the service's ports", p.Pos(fd.Decl.Pos()), "no range over the service ports parameter")
		return
	}
	if firstExit == nil {
		r.Bad(rule, fd.Key()+": a specified backend port is matched against the service ports", p.Pos(fd.Decl.Pos()), "no exit inside the loop over the service ports: a designated port does not end the search")
		return
	}
	nameEq, nameEmpty, portEq, targetEq := facts.Atom("svc:nameEq"), facts.Atom("svc:nameEmpty"), facts.Atom("svc:portEq"), facts.Atom("svc:targetEq")
	only := func(a facts.Formula, others ...facts.Formula) facts.Formula {
		f := facts.MkAnd(desig, a)
		for _, o := range others {
			f = facts.MkAnd(f, facts.MkNot(o))
		}
		return f
	}
	byName := only(nameEq, portEq, targetEq)
	haveName := facts.Satisfiable(byName) && facts.Entails(byName, facts.MkNot(nameEmpty))
	havePort := facts.Satisfiable(only(portEq, nameEq, targetEq))
	byTarget := only(targetEq, nameEq, portEq)
	haveTarget := facts.Satisfiable(byTarget)
	// a discriminator: any further proposition that every targetPort-only designation entails
	targetGuarded := false
	if haveTarget {
		for _, a := range facts.Atoms(byTarget) {
			if strings.HasPrefix(a, "svc:") || strings.HasPrefix(a, "req:") {
				continue
			}
			if facts.Entails(byTarget, facts.Atom(a)) || facts.Entails(byTarget, facts.MkNot(facts.Atom(a))) {
				// it must say something about where the required port comes from: mention a parameter other than the
				// list of service ports (or a local derived from one) - not the loop's own bookkeeping
				txt := facts.StripVersions(a)
				isId := func(c byte) bool {
					return c == '_' || c >= '0' && c <= '9' || c >= 'a' && c <= 'z' || c >= 'A' && c <= 'Z'
				}
				for k := 0; k < len(txt); {
					if isId(txt[k]) && !(txt[k] >= '0' && txt[k] <= '9') {
						e := k
						for e < len(txt) && isId(txt[e]) {
							e++
						}
						if k == 0 || txt[k-1] != '.' {
							if o := objNamed(fd, txt[k:e]); o != nil && paramOrigin(fd, o, 0) >= 1 {
								targetGuarded = true
							}
						}
						k = e
						continue
					}
					k++
				}
			}
		}
	}
	otherWays := !facts.Entails(desig, facts.MkOr(nameEq, facts.MkOr(portEq, targetEq)))
	matchPos := p.Pos(firstExit.Pos())
	r.Check(haveName, rule, fd.Key()+": a backend port name designates the service port of that (non-empty) name", matchPos, "svcPort.Name != \"\" && svcPort.Name == required.StrVal", "no designation by a (guarded, non-empty) comparison of the service port's name with the required name")
	r.Check(havePort, rule, fd.Key()+": a backend port number designates the service port with that number", matchPos, "svcPort.Port == required.IntVal", "no designation by a comparison of the service port's number with the required number")
	r.Check(!otherWays, rule, fd.Key()+": no other way to designate a service port", matchPos, "", "a service port can be designated without matching the required name, number (or targetPort): "+facts.StripVersions(facts.String(desig)))
	if haveTarget {
		r.Check(targetGuarded, rule, fd.Key()+": matching a required port against the service port's targetPort is restricted to Route-designated ports", matchPos, "the targetPort comparison is conjoined with an origin discriminator",
			"`svcPort.TargetPort == requiredPort` is applied to every required port, including the port number of a k8s Ingress backend (getServiceInfo builds it with the zero Type, i.e. as a number): an Ingress backend `port: {number: N}` designates a service port whose *targetPort* is N even when its `port` differs, instead of the service port numbered N (or none)")
	}
	// the function and the module helpers it calls directly (a block may have been extracted)
	scope := []*core.FuncDecl{fd}
	for _, callee := range p.CalleesOf(fd) {
		if hd := p.ByObj[callee]; hd != nil && hd.Pkg.PkgPath == fd.Pkg.PkgPath && hd != fd {
			scope = append(scope, hd)
			for _, c2 := range p.CalleesOf(hd) {
				if h2 := p.ByObj[c2]; h2 != nil && h2.Pkg.PkgPath == fd.Pkg.PkgPath && h2 != fd && h2 != hd {
					scope = append(scope, h2)
				}
			}
		}
	}
	// 2. the pod access port: targetPort, defaulting to the port
	{
		var okTarget, okDefault bool
		for _, g := range scope {
			ginfo := g.Pkg.TypesInfo
			gw := facts.NewWalker(ginfo)
			gw.Inline = true
			gw.OnStmt = func(st ast.Stmt, f facts.Formula) {
				var vals []ast.Expr
				switch x := st.(type) {
				case *ast.AssignStmt:
					if len(x.Lhs) == 1 && len(x.Rhs) == 1 {
						vals = append(vals, x.Rhs[0])
						if fieldPathEndsWith(ginfo, x.Rhs[0], "ServicePort", "Port") {
							if se, isSe := ast.Unparen(x.Lhs[0]).(*ast.SelectorExpr); isSe && se.Sel.Name == "IntVal" {
								okDefault = true
							}
						}
					}
				case *ast.ReturnStmt:
					vals = append(vals, x.Results...)
				}
				for _, v := range vals {
					if fieldPathEndsWith(ginfo, v, "ServicePort", "TargetPort") {
						txt := facts.StripVersions(facts.String(f))
						if strings.Contains(txt, "TargetPort.IntVal==0") && strings.Contains(txt, "TargetPort.StrVal") {
							okTarget = true
						}
					}
					ast.Inspect(v, func(m ast.Node) bool {
						switch y := m.(type) {
						case *ast.KeyValueExpr:
							if id, isId := y.Key.(*ast.Ident); isId && id.Name == "IntVal" && fieldPathEndsWith(ginfo, y.Value, "ServicePort", "Port") {
								okDefault = true
							}
						case *ast.CallExpr:
							if fn := core.Callee(ginfo, y); fn != nil && fn.Pkg() != nil && strings.HasSuffix(fn.Pkg().Path(), "util/intstr") && strings.HasPrefix(core.RefName(fn), "FromInt") && len(y.Args) == 1 {
								a := ast.Unparen(y.Args[0])
								if c, isC := a.(*ast.CallExpr); isC && core.IsConversion(ginfo, c) {
									a = c.Args[0]
								}
								if fieldPathEndsWith(ginfo, a, "ServicePort", "Port") {
									okDefault = true
								}
							}
						}
						return true
					})
				}
			}
			gw.WalkBody(g.Decl.Body, nil)
		}
		r.Check(okTarget && okDefault, rule, fd.Key()+": the pod port is the service port's targetPort, defaulting to its port", matchPos, "", "the access port is no longer `targetPort if set else port`")
	}
	// 3. an unspecified required port selects all service ports
	{
		okEmpty := false
		for _, g := range scope {
			s := core.ExprStr(g.Decl.Body)
			if strings.Contains(s, "IntVal == 0 && ") && strings.Contains(s, `StrVal == ""`) {
				okEmpty = true
			}
		}
		r.Check(okEmpty, rule, fd.Key()+": an unspecified backend port (Route without port) selects every service port", p.Pos(fd.Decl.Pos()), "", "the empty-required-port test changed")
	}
	// 4. how an Ingress backend's port is turned into the required port
	if gs := p.Func(core.PkgIngress, "", "getServiceInfo"); gs != nil {
		ginfo := gs.Pkg.TypesInfo
		var typed []string
		okName, okNum := false, false
		ast.Inspect(gs.Decl.Body, func(n ast.Node) bool {
			switch x := n.(type) {
			case *ast.CallExpr:
				if fn := core.Callee(ginfo, x); fn != nil && fn.Pkg() != nil && strings.HasSuffix(fn.Pkg().Path(), "util/intstr") {
					switch core.RefName(fn) {
					case "FromString", "Parse":
						typed = append(typed, "intstr."+core.RefName(fn))
						if len(x.Args) == 1 && fieldPathEndsWith(ginfo, x.Args[0], "ServiceBackendPort", "Name") {
							okName = true
						}
					case "FromInt", "FromInt32":
						if len(x.Args) == 1 {
							a := ast.Unparen(x.Args[0])
							if c, isC := a.(*ast.CallExpr); isC && core.IsConversion(ginfo, c) {
								a = c.Args[0]
							}
							if fieldPathEndsWith(ginfo, a, "ServiceBackendPort", "Number") {
								okNum = true
							}
						}
					}
				}
			case *ast.AssignStmt:
				if len(x.Lhs) == 1 && len(x.Rhs) == 1 {
					if se, ok := ast.Unparen(x.Lhs[0]).(*ast.SelectorExpr); ok {
						switch se.Sel.Name {
						case "StrVal":
							if fieldPathEndsWith(ginfo, x.Rhs[0], "ServiceBackendPort", "Name") {
								okName = true
							}
						case "IntVal":
							if fieldPathEndsWith(ginfo, x.Rhs[0], "ServiceBackendPort", "Number") {
								okNum = true
							}
						case "Type":
							typed = append(typed, "assignment of .Type")
						}
					}
				}
			case *ast.KeyValueExpr:
				if id, ok := x.Key.(*ast.Ident); ok && id.Name == "Type" {
					typed = append(typed, "literal with Type")
				}
			}
			return true
		})
		r.Check(okName && okNum, rule, gs.Key()+": the required port is the backend's port name, or else its number", p.Pos(gs.Decl.Pos()), "", "the Ingress backend's port name/number no longer flow into the required port")
		if haveTarget && !targetGuarded {
			r.Check(len(typed) == 0, rule, gs.Key()+": an Ingress backend port name is never comparable with a service targetPort name", p.Pos(gs.Decl.Pos()), "the name is stored in StrVal of a zero-Type value, which is unequal to every string-typed targetPort",
				"the Ingress backend port is built as a string-typed IntOrString ("+strings.Join(typed, ", ")+") while getPeerAccessPort compares the whole struct with the service port's targetPort: a backend port *name* now designates a service port whose targetPort has that name, whatever the service port's own name is")
		}
	} else {
		r.Lost(rule, "ingressanalyzer.getServiceInfo")
	}
	// 5. Route: the required port is the route's port.targetPort, for the primary and every alternate backend
	if gr := p.Func(core.PkgIngress, "IngressAnalyzer", "getRouteServices"); gr != nil {
		ginfo := gr.Pkg.TypesInfo
		n, okAll := 0, true
		var portVar types.Object
		ast.Inspect(gr.Decl.Body, func(nd ast.Node) bool {
			if as, ok := nd.(*ast.AssignStmt); ok && len(as.Rhs) == 1 && fieldPathEndsWith(ginfo, as.Rhs[0], "RoutePort", "TargetPort") {
				if id, isID := as.Lhs[0].(*ast.Ident); isID {
					portVar = ginfo.ObjectOf(id)
				}
			}
			return true
		})
		ast.Inspect(gr.Decl.Body, func(nd ast.Node) bool {
			cl, ok := nd.(*ast.CompositeLit)
			if !ok {
				return true
			}
			if nt := core.NamedOf(ginfo.TypeOf(cl)); nt == nil || nt.Obj().Name() != "serviceInfo" {
				return true
			}
			n++
			got := false
			for _, el := range cl.Elts {
				if kv, isKV := el.(*ast.KeyValueExpr); isKV && core.ExprStr(kv.Key) == "servicePort" {
					if id, isID := ast.Unparen(kv.Value).(*ast.Ident); isID && portVar != nil && ginfo.ObjectOf(id) == portVar {
						got = true
					}
				}
			}
			if !got {
				okAll = false
			}
			return true
		})
		r.Check(n >= 2 && okAll && portVar != nil, rule, gr.Key()+": `to` and every alternate backend carry the route's port.targetPort", p.Pos(gr.Decl.Pos()), fmt.Sprintf("%d backend literals", n), "a Route backend no longer carries the route's port.targetPort")
	} else {
		r.Lost(rule, "(*IngressAnalyzer).getRouteServices")
	}
	r.Floor(rule, 7)
}

// IngressTCPOnly is C10-tcp: only TCP container ports of the workload, reached through the designated port; named target ports are resolved on the same workload.
func IngressTCPOnly(p *core.Program, r *core.Report, rule string) {
	fd := p.Func(core.PkgIngress, "IngressAnalyzer", "getIngressPeerConnection")
	if fd == nil {
		r.Add(rule, "(*IngressAnalyzer).getIngressPeerConnection", "", core.Undecided, "renamed or removed: re-anchor the rule")
		return
	}
	info := fd.Pkg.TypesInfo
	sig := fd.Obj.Type().(*types.Signature)
	peer := sig.Params().At(0)
	isPeer := func(e ast.Expr) bool {
		id, ok := ast.Unparen(e).(*ast.Ident)
		return ok && info.ObjectOf(id) == peer
	}
	isTCP := func(e ast.Expr) bool {
		e = ast.Unparen(e)
		if c, ok := e.(*ast.CallExpr); ok && core.IsConversion(info, c) && len(c.Args) == 1 {
			e = ast.Unparen(c.Args[0])
		}
		tv := info.Types[e]
		return tv.Value != nil && tv.Value.ExactString() == `"TCP"`
	}
	var exposedOfPeer, containsTCP, addTCP, namedOnPeer bool
	var addCall, containsCall, namedCall *ast.CallExpr
	var exposedVar types.Object
	ast.Inspect(fd.Decl.Body, func(n ast.Node) bool {
		switch x := n.(type) {
		case *ast.AssignStmt:
			if len(x.Rhs) == 1 {
				if nm, c := callName(info, x.Rhs[0]); nm == "GetPeerExposedTCPConnections" && len(c.Args) == 1 && isPeer(c.Args[0]) {
					exposedOfPeer = true
					if id, ok := x.Lhs[0].(*ast.Ident); ok {
						exposedVar = info.ObjectOf(id)
					}
				}
			}
		case *ast.CallExpr:
			fn := core.Callee(info, x)
			if fn == nil {
				return true
			}
			switch core.RefName(fn) {
			case "Contains":
				if se, ok := ast.Unparen(x.Fun).(*ast.SelectorExpr); ok && len(x.Args) == 2 {
					if id, isID := ast.Unparen(se.X).(*ast.Ident); isID && exposedVar != nil && info.ObjectOf(id) == exposedVar && isTCP(x.Args[1]) {
						containsTCP = true
						containsCall = x
					}
				}
			case "AddConnection":
				if len(x.Args) == 2 && isTCP(x.Args[0]) {
					addTCP = true
					addCall = x
				} else {
					addTCP = false
					addCall = x
				}
			case "ConvertPeerNamedPort":
				if len(x.Args) == 2 && isPeer(x.Args[1]) {
					namedOnPeer = true
					namedCall = x
				}
			}
		}
		return true
	})
	r.Check(exposedOfPeer && containsTCP, rule, fd.Key()+": a port is granted only if it is a TCP container port of the same workload", p.Pos(fd.Decl.Pos()), "GetPeerExposedTCPConnections(peer).Contains(port, TCP)", "the workload's exposed TCP ports are no longer consulted for the same peer / protocol TCP")
	r.Check(addTCP, rule, fd.Key()+": the granted connection is TCP", p.Pos(fd.Decl.Pos()), "", "a non-TCP connection is added")
	// the AddConnection is dominated by the Contains test
	if addCall != nil && containsCall != nil {
		fm, _, found := FactsAt(fd, addCall, nil)
		ok := false
		if found {
			for _, a := range facts.Atoms(fm) {
				if strings.Contains(a, ".Contains(") && facts.Entails(fm, facts.Atom(a)) {
					ok = true
				}
			}
		}
		r.Check(ok, rule, fd.Key()+": the connection is added only under the containment test", p.Pos(addCall.Pos()), "", "AddConnection is no longer guarded by peerTCPConn.Contains(...)")
	}
	r.Check(namedOnPeer, rule, fd.Key()+": a named target port is resolved on the workload the line is about", p.Pos(fd.Decl.Pos()), "pe.ConvertPeerNamedPort(name, peer)", "the named target port is not resolved through ConvertPeerNamedPort on the same peer (a per-name memo or another workload's ports would mix workloads)")
	// non-TCP / missing named port is skipped
	if namedCall != nil {
		as, _ := enclosingStmt(fd.Decl.Body, namedCall.Pos()).(*ast.AssignStmt)
		ok := false
		if as != nil && len(as.Lhs) == 3 {
			protoID, _ := as.Lhs[0].(*ast.Ident)
			numID, _ := as.Lhs[1].(*ast.Ident)
			// find `if protocol != TCP || portInt < 0 { continue }`
			ast.Inspect(fd.Decl.Body, func(n ast.Node) bool {
				ifs, isIf := n.(*ast.IfStmt)
				if !isIf || len(ifs.Body.List) == 0 {
					return true
				}
				br, isBr := ifs.Body.List[len(ifs.Body.List)-1].(*ast.BranchStmt)
				if !isBr || br.Tok != token.CONTINUE {
					return true
				}
				ds := flattenOr(ifs.Cond)
				var hasProto, hasNeg bool
				for _, d := range ds {
					be, isBE := ast.Unparen(d).(*ast.BinaryExpr)
					if !isBE {
						continue
					}
					if id, isID := ast.Unparen(be.X).(*ast.Ident); isID {
						if protoID != nil && info.ObjectOf(id) == info.ObjectOf(protoID) && be.Op == token.NEQ && isTCP(be.Y) {
							hasProto = true
						}
						if numID != nil && info.ObjectOf(id) == info.ObjectOf(numID) && be.Op == token.LSS && core.ExprStr(be.Y) == "0" {
							hasNeg = true
						}
					}
				}
				if hasProto && hasNeg {
					ok = true
				}
				return true
			})
		}
		r.Check(ok, rule, fd.Key()+": a named port that is missing on the workload, or not TCP, grants nothing", p.Pos(namedCall.Pos()), "protocol != TCP || port < 0 -> continue", "the skip of non-TCP / unresolved named ports changed")
	}
	// the filter of container ports by protocol depends on the element
	if pf := p.Func(core.PkgK8s, "Pod", "PodExposedTCPConnections"); pf != nil {
		pinfo := pf.Pkg.TypesInfo
		// decided where the connection is recorded inside the loop: the path condition entails that the container port's
		// OWN protocol is unset or TCP (canonical atoms by the value it is compared with; a local or constant that
		// holds the value is unfolded)
		pw := facts.NewWalker(pinfo)
		pw.Inline = true
		valueOf := func(e ast.Expr) (string, bool) {
			if v, isC := core.ConstString(pinfo, e); isC {
				return v, true
			}
			if id, isId := ast.Unparen(e).(*ast.Ident); isId {
				if d, _ := defOf(pf, id); d != nil {
					if v, isC := core.ConstString(pinfo, d); isC {
						return v, true
					}
				}
			}
			return "", false
		}
		pw.Atomize = func(w *facts.Walker, e ast.Expr) facts.Formula {
			be, isBE := e.(*ast.BinaryExpr)
			if !isBE || (be.Op != token.EQL && be.Op != token.NEQ) {
				return nil
			}
			x, y := ast.Unparen(be.X), ast.Unparen(be.Y)
			if !fieldPathEndsWith(pinfo, x, "ContainerPort", "Protocol") {
				x, y = y, x
			}
			if !fieldPathEndsWith(pinfo, x, "ContainerPort", "Protocol") {
				return nil
			}
			v, known := valueOf(y)
			if !known {
				return nil
			}
			var at facts.Formula = facts.Atom("cproto:" + w.Path(x) + "=" + v)
			if be.Op == token.NEQ {
				at = facts.MkNot(at)
			}
			return at
		}
		ok := false
		why := "no connection is recorded inside a loop over the container ports"
		pw.OnExpr = func(e ast.Expr, f facts.Formula) {
			c, isC := e.(*ast.CallExpr)
			if !isC || len(pw.Loops) == 0 {
				return
			}
			if fn := core.Callee(pinfo, c); fn == nil || core.RefName(fn) != "AddConnection" {
				return
			}
			var unset, tcp facts.Formula = facts.False{}, facts.False{}
			for _, a := range facts.Atoms(f) {
				if strings.HasPrefix(a, "cproto:") {
					switch {
					case strings.HasSuffix(a, "="):
						unset = facts.MkOr(unset, facts.Atom(a))
					case strings.HasSuffix(a, "=TCP"):
						tcp = facts.MkOr(tcp, facts.Atom(a))
					}
				}
			}
			if facts.Entails(f, facts.MkOr(unset, tcp)) {
				ok = true
			} else {
				ok = false
				why = "a container port is recorded as an exposed TCP port on a path (" + facts.StripVersions(facts.String(f)) + ") that does not establish that its own protocol is unset or TCP"
			}
		}
		pw.WalkBody(pf.Decl.Body, nil)
		r.Check(ok, rule, pf.Key()+": the TCP filter of container ports tests each port's own protocol", p.Pos(pf.Decl.Pos()), "", why)
	} else {
		r.Lost(rule, "(*Pod).PodExposedTCPConnections")
	}
	r.Floor(rule, 6)
}

// IngressPolicyIntersection is C10-policy.
func IngressPolicyIntersection(p *core.Program, r *core.Report, rule string) {
	fd := p.Func(core.PkgConnlist, "ConnlistAnalyzer", "getIngressAllowedConnections")
	if fd == nil {
		r.Add(rule, "(*ConnlistAnalyzer).getIngressAllowedConnections", "", core.Undecided, "renamed or removed: re-anchor the rule")
		return
	}
	sf := p.SSAFunc(fd)
	if sf == nil {
		r.Lost(rule, "SSA of getIngressAllowedConnections")
		return
	}
	// the function that intersects: getIngressAllowedConnections itself, or a helper of the package it calls with the
	// fake pod (the per-workload part of the loop body may have been extracted)
	var addPod, allowed, inter, isEmpty, warn, create *ssa.Call
	scan := func(f *ssa.Function) {
		for _, b := range f.Blocks {
			for _, in := range b.Instrs {
				c, ok := in.(*ssa.Call)
				if !ok {
					continue
				}
				_, n := ssaCalleeName(c.Common())
				switch n {
				case "AddPodByNameAndNamespace":
					addPod = c
				case "AllAllowedConnectionsBetweenWorkloadPeers":
					allowed = c
				case "Intersection":
					inter = c
				case "IsEmpty":
					isEmpty = c
				case "warnBlockedIngress":
					warn = c
				case "createConnectionObject":
					create = c
				}
			}
		}
	}
	scan(sf)
	coreFn := sf
	var coreCall *ssa.Call
	if inter == nil {
		for _, b := range sf.Blocks {
			for _, in := range b.Instrs {
				c, ok := in.(*ssa.Call)
				if !ok {
					continue
				}
				callee := c.Common().StaticCallee()
				if callee == nil || callee.Pkg == nil || callee.Pkg.Pkg.Path() != core.PkgConnlist || len(callee.Blocks) == 0 || inter != nil {
					continue
				}
				hasInter := false
				for _, hb := range callee.Blocks {
					for _, hin := range hb.Instrs {
						if hc, isC := hin.(*ssa.Call); isC {
							if _, n := ssaCalleeName(hc.Common()); n == "Intersection" {
								hasInter = true
							}
						}
					}
				}
				if hasInter {
					scan(callee)
					coreFn, coreCall = callee, c
				}
			}
		}
	}
	if addPod == nil || allowed == nil || inter == nil || isEmpty == nil || warn == nil || create == nil {
		r.Add(rule, fd.Key()+": fake pod, policy verdict, intersection, emptiness test, warning and row construction", p.Pos(fd.Decl.Pos()), core.Undecided, "one of the six calls was not found: re-anchor the rule")
		return
	}
	// fake pod: constants
	{
		ok := len(addPod.Call.Args) == 3
		if ok {
			for _, a := range addPod.Call.Args[1:] {
				if _, isK := a.(*ssa.Const); !isK {
					ok = false
				}
			}
		}
		r.Check(ok, rule, fd.Key()+": the ingress controller is a fixed fake pod", p.Pos(addPod.Pos()), "constant name and namespace", "the ingress-controller pod's name/namespace are not the constants")
	}
	isFakePod := func(v ssa.Value) bool {
		ex, ok := v.(*ssa.Extract)
		return ok && ex.Tuple == ssa.Value(addPod) && ex.Index == 0
	}
	ingressPod := func(v ssa.Value) bool {
		v = stripIface(v)
		if isFakePod(v) {
			return true
		}
		// in the helper: the parameter that receives the fake pod at the call
		if prm, ok := v.(*ssa.Parameter); ok && coreCall != nil {
			for k, fp := range coreFn.Params {
				if fp == prm && k < len(coreCall.Call.Args) {
					return isFakePod(stripIface(coreCall.Call.Args[k]))
				}
			}
		}
		return false
	}
	// the peer: field Peer of the ranged entry
	peerOf := func(v ssa.Value) ssa.Value {
		// load of FieldAddr(entry, Peer)
		if u, ok := v.(*ssa.UnOp); ok {
			if fa, ok := u.X.(*ssa.FieldAddr); ok {
				return fa.X
			}
		}
		return nil
	}
	setOf := func(v ssa.Value) ssa.Value {
		if u, ok := v.(*ssa.UnOp); ok {
			if fa, ok := u.X.(*ssa.FieldAddr); ok {
				return fa.X
			}
		}
		return nil
	}
	entry := peerOf(allowed.Call.Args[2])
	okVerdict := len(allowed.Call.Args) == 3 && ingressPod(allowed.Call.Args[1]) && entry != nil
	r.Check(okVerdict, rule, fd.Key()+": the policy verdict is computed from the ingress-controller pod to the targeted workload", p.Pos(allowed.Pos()), "", "AllAllowedConnectionsBetweenWorkloadPeers is not called with (fake pod, targeted peer)")
	// Intersection: receiver = entry's ConnSet, operand = verdict result #0
	okInter := false
	if len(inter.Call.Args) == 2 {
		ex, isEx := inter.Call.Args[1].(*ssa.Extract)
		okInter = setOf(inter.Call.Args[0]) == entry && isEx && ex.Tuple == ssa.Value(allowed) && ex.Index == 0
	}
	r.Check(okInter, rule, fd.Key()+": the ingress connections of a workload are intersected with the policy verdict for the same workload", p.Pos(inter.Pos()), "", "the Intersection does not combine the entry's own set with the verdict computed for that entry's peer")
	// row: built from the same entry's set and peer, src = fake pod, after the intersection, under !IsEmpty
	okRow := len(create.Call.Args) == 3 && setOf(stripIface(create.Call.Args[0])) == entry && ingressPod(stripIface(create.Call.Args[1])) && peerOf(stripIface(create.Call.Args[2])) == entry
	okRow = okRow && inter.Block().Dominates(create.Block()) && setOf(isEmpty.Call.Args[0]) == entry
	if okRow {
		// the create block is the false successor of the IsEmpty test
		ib := isEmpty.Block()
		iff, isIf := ib.Instrs[len(ib.Instrs)-1].(*ssa.If)
		okRow = isIf && iff.Cond == ssa.Value(isEmpty) && ib.Succs[1].Dominates(create.Block()) && ib.Succs[0].Dominates(warn.Block()) && !ib.Succs[0].Dominates(create.Block())
		// the warning arm never reaches the row construction without going through the emptiness test again (it goes
		// back to the loop head, or returns)
		seen := map[*ssa.BasicBlock]bool{ib: true}
		work := []*ssa.BasicBlock{warn.Block()}
		for len(work) > 0 {
			b := work[len(work)-1]
			work = work[:len(work)-1]
			if seen[b] {
				continue
			}
			seen[b] = true
			if b == create.Block() {
				okRow = false
			}
			work = append(work, b.Succs...)
		}
	}
	r.Check(okRow, rule, fd.Key()+": a line is reported exactly for a non-empty intersection, from the fake pod to that workload; an empty one yields the warning", p.Pos(create.Pos()), "", "row construction / warning are not the two arms of the emptiness test of the intersected set")
	// warnBlockedIngress names the blocked objects of the same entry
	okWarn := len(warn.Call.Args) == 3 && setOf(warn.Call.Args[2]) == entry
	r.Check(okWarn, rule, fd.Key()+": the warning names the Ingress/Route objects of the blocked workload", p.Pos(warn.Pos()), "", "warnBlockedIngress does not receive the entry's own IngressObjects")
	// the warning is recorded as a warning
	if wf := p.Func(core.PkgConnlist, "ConnlistAnalyzer", "warnBlockedIngress"); wf != nil {
		winfo := wf.Pkg.TypesInfo
		ok := false
		ast.Inspect(wf.Decl.Body, func(n ast.Node) bool {
			if c, isC := n.(*ast.CallExpr); isC && core.IsBuiltinCall(winfo, c, "append") && len(c.Args) == 2 {
				if nm, _ := callName(winfo, ResolveLocal(winfo, wf.Decl.Body, c.Args[1])); nm == "newConnlistAnalyzerWarning" {
					ok = true
				}
			}
			return true
		})
		r.Check(ok, rule, wf.Key()+": records a warning in Errors()", p.Pos(wf.Decl.Pos()), "", "the blocked-ingress warning is no longer appended to the analyzer's errors as a warning")
	}
	// the fake pod: unlabeled, no owner, no ports, namespace resolved as a default namespace object
	if af := p.Func(core.PkgEval, "PolicyEngine", "AddPodByNameAndNamespace"); af != nil {
		ainfo := af.Pkg.TypesInfo
		var keys []string
		resolves := false
		collect := func(fd *core.FuncDecl) {
			finfo := fd.Pkg.TypesInfo
			ast.Inspect(fd.Decl.Body, func(n ast.Node) bool {
				if cl, ok := n.(*ast.CompositeLit); ok {
					if nt := core.NamedOf(finfo.TypeOf(cl)); nt != nil && nt.Obj().Name() == "Pod" {
						for _, el := range cl.Elts {
							if kv, isKV := el.(*ast.KeyValueExpr); isKV {
								keys = append(keys, core.ExprStr(kv.Key))
							}
						}
					}
				}
				return true
			})
		}
		collect(af)
		ast.Inspect(af.Decl.Body, func(n ast.Node) bool {
			if c, ok := n.(*ast.CallExpr); ok {
				if fn := core.Callee(ainfo, c); fn != nil {
					if core.RefName(fn) == "resolveSingleMissingNamespace" {
						resolves = true
					}
					// the pod may be built by a constructor of package k8s
					if cfd := p.ByObj[fn]; cfd != nil && cfd.Pkg.PkgPath == core.PkgK8s {
						collect(cfd)
					}
				}
			}
			return true
		})
		sort.Strings(keys)
		allowed := map[string]bool{"FakePod": true, "Name": true, "Namespace": true, "IngressExposureData": true, "EgressExposureData": true}
		need := map[string]bool{"FakePod": false, "Name": false, "Namespace": false}
		okKeys := true
		for _, k := range keys {
			if !allowed[k] {
				okKeys = false
			}
			if _, isNeed := need[k]; isNeed {
				need[k] = true
			}
		}
		for _, v := range need {
			if !v {
				okKeys = false
			}
		}
		r.Check(okKeys && resolves, rule, af.Key()+": the fake pod has no labels, owner or ports and its namespace is a default namespace object", p.Pos(af.Decl.Pos()), strings.Join(keys, ","), "the fake ingress-controller pod is built with the fields "+strings.Join(keys, ",")+" (it must be an arbitrary unlabeled pod of an unknown namespace: name, namespace, the fake flag and empty exposure data only)")
	} else {
		r.Lost(rule, "(*PolicyEngine).AddPodByNameAndNamespace")
	}
	r.Floor(rule, 7)
}

// IngressNamespaceScoping is C10-ns: service lookup under the Ingress/Route namespace; selection among the service namespace's workloads; merging by Union.
func IngressNamespaceScoping(p *core.Program, r *core.Report, rule string) {
	// map stores: m[obj.Namespace][obj.Name]
	type st struct{ fn, m, obj string }
	for _, s := range []st{{"mapServiceToPeers", "servicesToPortsAndPeersMap", "svc"}, {"mapRouteToServices", "routesToServicesMap", "rt"}, {"mapK8sIngressToServices", "k8sIngressToServicesMap", "ing"}} {
		fd := p.Func(core.PkgIngress, "IngressAnalyzer", s.fn)
		if fd == nil {
			r.Lost(rule, "(*IngressAnalyzer)."+s.fn)
			continue
		}
		info := fd.Pkg.TypesInfo
		prm := fd.Obj.Type().(*types.Signature).Params().At(0)
		isObjField := func(e ast.Expr, name string) bool {
			se, isSe := ast.Unparen(e).(*ast.SelectorExpr)
			if !isSe || se.Sel.Name != name {
				return false
			}
			id, isID := ast.Unparen(se.X).(*ast.Ident)
			return isID && info.ObjectOf(id) == prm
		}
		// the store m[ns][name] = v, written in place or in a helper that receives the map, the namespace and the name
		var stores func(g *core.FuncDecl, isMap, isNs, isName func(e ast.Expr) bool, depth int) bool
		stores = func(g *core.FuncDecl, isMap, isNs, isName func(e ast.Expr) bool, depth int) bool {
			ginfo := g.Pkg.TypesInfo
			found := false
			ast.Inspect(g.Decl.Body, func(n ast.Node) bool {
				switch x := n.(type) {
				case *ast.AssignStmt:
					if len(x.Lhs) != 1 {
						return true
					}
					ix, isIx := ast.Unparen(x.Lhs[0]).(*ast.IndexExpr)
					if !isIx {
						return true
					}
					ix2, isIx2 := ast.Unparen(ix.X).(*ast.IndexExpr)
					if !isIx2 {
						return true
					}
					if isMap(ix2.X) && isNs(ix2.Index) && isName(ix.Index) {
						found = true
					}
				case *ast.CallExpr:
					if depth >= 1 {
						return true
					}
					fn := core.Callee(ginfo, x)
					hd := p.ByObj[fn]
					if hd == nil {
						return true
					}
					hsig := fn.Type().(*types.Signature)
					var pm, pn, pname *types.Var
					for k, a := range x.Args {
						if k >= hsig.Params().Len() {
							break
						}
						switch {
						case isMap(a):
							pm = hsig.Params().At(k)
						case isNs(a):
							pn = hsig.Params().At(k)
						case isName(a):
							pname = hsig.Params().At(k)
						}
					}
					if pm == nil || pn == nil || pname == nil {
						return true
					}
					hinfo := hd.Pkg.TypesInfo
					is := func(v *types.Var) func(e ast.Expr) bool {
						return func(e ast.Expr) bool {
							id, isID := ast.Unparen(e).(*ast.Ident)
							return isID && hinfo.ObjectOf(id) == types.Object(v)
						}
					}
					if stores(hd, is(pm), is(pn), is(pname), depth+1) {
						found = true
					}
				}
				return true
			})
			return found
		}
		ok := stores(fd,
			func(e ast.Expr) bool { f := FieldBehind(fd, e); return f != nil && core.RefName(f) == s.m },
			func(e ast.Expr) bool { return isObjField(e, "Namespace") },
			func(e ast.Expr) bool { return isObjField(e, "Name") }, 0)
		r.Check(ok, rule, fd.Key()+": stored under the object's own namespace and name", p.Pos(fd.Decl.Pos()), s.m+"[obj.Namespace][obj.Name]", "the object is no longer stored under [its namespace][its name]")
	}
	// GetSelectedPeers(selector, svc.Namespace) of the same service; the engine filters by namespace equality
	if fd := p.Func(core.PkgIngress, "IngressAnalyzer", "getServiceSelectedPeers"); fd != nil {
		info := fd.Pkg.TypesInfo
		prm := fd.Obj.Type().(*types.Signature).Params().At(0)
		ok, okSel := false, false
		ast.Inspect(fd.Decl.Body, func(n ast.Node) bool {
			c, isC := n.(*ast.CallExpr)
			if !isC {
				return true
			}
			fn := core.Callee(info, c)
			if fn == nil {
				return true
			}
			if core.RefName(fn) == "GetSelectedPeers" && len(c.Args) == 2 {
				if se, isSe := ast.Unparen(c.Args[1]).(*ast.SelectorExpr); isSe && se.Sel.Name == "Namespace" {
					if id, isID := ast.Unparen(se.X).(*ast.Ident); isID && info.ObjectOf(id) == prm {
						ok = true
					}
				}
				// the selector handed over derives from the service's own spec.selector (through locals, a conversion
				// helper, or the conversion written in place)
				var derives func(e ast.Expr, depth int) bool
				derives = func(e ast.Expr, depth int) bool {
					found := false
					ast.Inspect(e, func(m ast.Node) bool {
						if found {
							return false
						}
						switch y := m.(type) {
						case *ast.SelectorExpr:
							if fieldPathEndsWith(info, y, "ServiceSpec", "Selector") {
								if root := core.RootIdent(y); root != nil && info.ObjectOf(root) == types.Object(prm) {
									found = true
								}
							}
						case *ast.Ident:
							if depth < 4 {
								if d, _ := defOf(fd, y); d != nil && derives(d, depth+1) {
									found = true
								}
							}
						}
						return !found
					})
					return found
				}
				if derives(c.Args[0], 0) {
					okSel = true
				}
			}
			return true
		})
		r.Check(ok && okSel, rule, fd.Key()+": workloads are selected by the service's selector within the service's namespace", p.Pos(fd.Decl.Pos()), "", "GetSelectedPeers is not called with (the service's selector, the service's namespace)")
	}
	if fd := p.Func(core.PkgEval, "PolicyEngine", "GetSelectedPeers"); fd != nil {
		info := fd.Pkg.TypesInfo
		sig := fd.Obj.Type().(*types.Signature)
		nsP, selP := sig.Params().At(1), sig.Params().At(0)
		var okNs, okMatch bool
		var appendCall *ast.CallExpr
		ast.Inspect(fd.Decl.Body, func(n ast.Node) bool {
			if c, ok := n.(*ast.CallExpr); ok && core.IsBuiltinCall(info, c, "append") {
				appendCall = c
			}
			return true
		})
		if appendCall != nil {
			fm, _, found := FactsAt(fd, appendCall, nil)
			if found {
				for _, a := range facts.Atoms(fm) {
					s := facts.StripVersions(a)
					if strings.HasPrefix(s, "cmp:") && strings.Contains(s, ".Namespace()") && strings.Contains(s, core.RefName(nsP)) && strings.Contains(s, "!=") && facts.Entails(fm, facts.Not{X: facts.Atom(a)}) {
						okNs = true
					}
					if strings.HasPrefix(s, "eq:") && strings.Contains(s, ".Namespace()") && strings.Contains(s, core.RefName(nsP)+"==") && facts.Entails(fm, facts.Atom(a)) {
						okNs = true
					}
					if strings.HasPrefix(s, "b:"+core.RefName(selP)+".Matches(") && strings.Contains(s, ".Labels") && facts.Entails(fm, facts.Atom(a)) {
						okMatch = true
					}
				}
			}
		}
		r.Check(okNs && okMatch, rule, fd.Key()+": a workload is selected iff it is in the given namespace and its pod labels match", p.Pos(fd.Decl.Pos()), "", "the selection is no longer guarded by namespace equality and selector.Matches(pod labels)")
	}
	// lookup of the designated service under the Ingress/Route namespace
	if fd := p.Func(core.PkgIngress, "IngressAnalyzer", "getIngressObjectTargetedPeersAndPorts"); fd != nil {
		info := fd.Pkg.TypesInfo
		nsP := fd.Obj.Type().(*types.Signature).Params().At(0)
		ok := false
		ast.Inspect(fd.Decl.Body, func(n ast.Node) bool {
			ix, isIx := n.(*ast.IndexExpr)
			if !isIx {
				return true
			}
			ix2, isIx2 := ast.Unparen(ix.X).(*ast.IndexExpr)
			if !isIx2 {
				return true
			}
			if f := core.FieldOf(info, ix2.X); f == nil || core.RefName(f) != "servicesToPortsAndPeersMap" {
				return true
			}
			id, isID := ast.Unparen(ix2.Index).(*ast.Ident)
			if isID && info.ObjectOf(id) == nsP && strings.HasSuffix(core.ExprStr(ix.Index), ".serviceName") {
				ok = true
			}
			return true
		})
		r.Check(ok, rule, fd.Key()+": the designated service is looked up in the Ingress/Route namespace by its name", p.Pos(fd.Decl.Pos()), "servicesToPortsAndPeersMap[ns][svc.serviceName]", "the service lookup is no longer [namespace of the Ingress/Route][designated service name]")
		// ports passed are the ports of that same service
		okPorts := false
		ast.Inspect(fd.Decl.Body, func(n ast.Node) bool {
			if c, isC := n.(*ast.CallExpr); isC {
				if fn := core.Callee(info, c); fn != nil && core.RefName(fn) == "getIngressPeerConnection" && len(c.Args) >= 3 {
					// (the element of <entry>.peers, <entry>.ports, <designation>.servicePort) where <entry> is the value
					// looked up in servicesToPortsAndPeersMap
					a1, a2 := core.ExprStr(c.Args[1]), core.ExprStr(c.Args[2])
					okPorts = strings.HasSuffix(a1, ".ports") && strings.HasSuffix(a2, ".servicePort")
					if id0, isID := ast.Unparen(c.Args[0]).(*ast.Ident); isID && okPorts {
						okPorts = false
						entry := core.RootIdent(c.Args[1])
						ast.Inspect(fd.Decl.Body, func(m ast.Node) bool {
							if rs, isRs := m.(*ast.RangeStmt); isRs && entry != nil {
								if v, isV := rs.Value.(*ast.Ident); isV && info.ObjectOf(v) == info.ObjectOf(id0) {
									if re := core.RootIdent(rs.X); re != nil && info.ObjectOf(re) == info.ObjectOf(entry) && strings.HasSuffix(core.ExprStr(rs.X), ".peers") {
										okPorts = true
									}
								}
							}
							return true
						})
					} else {
						okPorts = false
					}
				}
			}
			return true
		})
		r.Check(okPorts, rule, fd.Key()+": each selected workload is analysed with the ports of that service and the port the backend designates", p.Pos(fd.Decl.Pos()), "", "getIngressPeerConnection no longer receives (peer, that service's ports, the backend's port)")
	}
	if fd := p.Func(core.PkgIngress, "IngressAnalyzer", "allowedIngressConnectionsByResourcesType"); fd != nil {
		info := fd.Pkg.TypesInfo
		ok := false
		var outer *ast.RangeStmt
		ast.Inspect(fd.Decl.Body, func(n ast.Node) bool {
			if rs, isRs := n.(*ast.RangeStmt); isRs && outer == nil {
				outer = rs
			}
			return true
		})
		if outer != nil {
			if k, isID := outer.Key.(*ast.Ident); isID {
				ast.Inspect(outer.Body, func(n ast.Node) bool {
					if c, isC := n.(*ast.CallExpr); isC {
						if fn := core.Callee(info, c); fn != nil && core.RefName(fn) == "getIngressObjectTargetedPeersAndPorts" && len(c.Args) == 2 {
							if id, isID := ast.Unparen(c.Args[0]).(*ast.Ident); isID && info.ObjectOf(id) == info.ObjectOf(k) {
								ok = true
							}
						}
					}
					return true
				})
			}
		}
		r.Check(ok, rule, fd.Key()+": services are resolved in the namespace the Ingress/Route objects were stored under", p.Pos(fd.Decl.Pos()), "", "the namespace passed to the service lookup is not the key of the Ingress/Route map")
	}
	// merging: a workload reached through several objects accumulates by Union. Anchored by the effect: every store of
	// an entry into a map of per-workload connection entries (in any function of the package) happens where a comma-ok
	// lookup of that map is known to have FAILED, and the same function unions into the entry where the lookup is known
	// to have succeeded - whatever the shape (if/else, early return, a helper).
	{
		isConnEntryMap := func(t types.Type) bool {
			m, ok := t.Underlying().(*types.Map)
			if !ok {
				return false
			}
			es := types.TypeString(m.Elem(), nil)
			return strings.HasSuffix(es, ".PeerAndIngressConnSet") || strings.HasSuffix(es, "common.ConnectionSet")
		}
		nSites := 0
		for _, fd := range p.FuncsIn(core.PkgIngress) {
			info := fd.Pkg.TypesInfo
			// comma-ok lookups per map text
			okVars := map[string][]*types.Var{}
			ast.Inspect(fd.Decl.Body, func(n ast.Node) bool {
				as, isAs := n.(*ast.AssignStmt)
				if !isAs || len(as.Lhs) != 2 || len(as.Rhs) != 1 {
					return true
				}
				ix, isIx := ast.Unparen(as.Rhs[0]).(*ast.IndexExpr)
				if !isIx || !isConnEntryMap(info.TypeOf(ix.X)) {
					return true
				}
				if id, isId := as.Lhs[1].(*ast.Ident); isId {
					if v, isV := info.ObjectOf(id).(*types.Var); isV {
						okVars[core.ExprStr(ix.X)] = append(okVars[core.ExprStr(ix.X)], v)
					}
				}
				return true
			})
			if len(okVars) == 0 {
				continue
			}
			w := facts.NewWalker(info)
			storeOK, unionOK := map[string]bool{}, map[string]bool{}
			storeBad := ""
			known := func(f facts.Formula, m string, positive bool) bool {
				for _, v := range okVars[m] {
					at := facts.Formula(facts.Atom("b:" + w.PathOfVar(v)))
					if !positive {
						at = facts.MkNot(at)
					}
					if facts.Entails(f, at) {
						return true
					}
				}
				return false
			}
			w.OnStmt = func(st ast.Stmt, f facts.Formula) {
				switch x := st.(type) {
				case *ast.AssignStmt:
					if len(x.Lhs) != 1 {
						return
					}
					ix, isIx := ast.Unparen(x.Lhs[0]).(*ast.IndexExpr)
					if !isIx || !isConnEntryMap(info.TypeOf(ix.X)) {
						return
					}
					m := core.ExprStr(ix.X)
					if _, has := okVars[m]; !has {
						return
					}
					if known(f, m, false) {
						storeOK[m] = true
					} else if storeBad == "" {
						storeBad = p.Pos(x.Pos())
					}
				case *ast.ExprStmt:
					c, isC := x.X.(*ast.CallExpr)
					if !isC {
						return
					}
					if fn := core.Callee(info, c); fn == nil || core.RefName(fn) != "Union" {
						return
					}
					for m := range okVars {
						if known(f, m, true) {
							unionOK[m] = true
						}
					}
				}
			}
			w.WalkBody(fd.Decl.Body, nil)
			for m := range okVars {
				if !storeOK[m] && !unionOK[m] && storeBad == "" {
					continue // a lookup that only reads
				}
				nSites++
				r.Check(storeOK[m] && unionOK[m] && storeBad == "", rule, fmt.Sprintf("%s: connections of a workload reached several times are accumulated by Union (%s)", fd.Key(), core.Stable(info, okVarsMapExpr(fd, m))), p.Pos(fd.Decl.Pos()), "absent: store; present: Union",
					"the store-or-Union discipline on the per-workload entry changed (store where the entry may exist: "+storeBad+"): a later Ingress/Route/Service overwrites or drops the earlier ones")
			}
		}
		r.RuleCounts[rule+"-merge"] = nSites
		r.Floor(rule+"-merge", 2)
	}
	r.Floor(rule, 10)
}

// objNamed finds the variable of fd with the given name (first declaration).
func objNamed(fd *core.FuncDecl, name string) types.Object {
	var obj types.Object
	ast.Inspect(fd.Decl, func(n ast.Node) bool {
		if id, ok := n.(*ast.Ident); ok && id.Name == name && obj == nil {
			if o, isV := fd.Pkg.TypesInfo.ObjectOf(id).(*types.Var); isV && !o.IsField() {
				obj = o
			}
		}
		return obj == nil
	})
	return obj
}

// okVarsMapExpr finds an expression of fd whose printed form is m (for a rename-stable construct).
func okVarsMapExpr(fd *core.FuncDecl, m string) ast.Node {
	var out ast.Node
	ast.Inspect(fd.Decl.Body, func(n ast.Node) bool {
		if e, ok := n.(ast.Expr); ok && out == nil && core.ExprStr(e) == m {
			out = e
		}
		return out == nil
	})
	if out == nil {
		return fd.Decl.Name
	}
	return out
}
