package rules

import (
	"fmt"
	"go/ast"
	"go/token"
	"go/types"
	"strings"

	"npverif/internal/core"
	"npverif/internal/facts"
)

// Rules added after the third round of seeded changes (DESIGN.md section 9). Each states a necessary condition of
// its property in general terms; none matches a seed's text.

// AllowAllResetsMap is C11-c-reset: the canonical form of "all connections" is the flag with an EMPTY protocol map;
// wherever the flag is set to true the map is replaced by a fresh empty map in the same block.
func AllowAllResetsMap(p *core.Program, r *core.Report, rule string) {
	fld := p.Field(core.PkgCommon, "ConnectionSet", "AllowAll")
	mp := p.Field(core.PkgCommon, "ConnectionSet", "AllowedProtocols")
	if fld == nil || mp == nil {
		r.Lost(rule, "ConnectionSet.AllowAll / AllowedProtocols")
		return
	}
	n := 0
	for _, fd := range p.Funcs {
		info := fd.Pkg.TypesInfo
		var blocks [][]ast.Stmt
		ast.Inspect(fd.Decl.Body, func(nd ast.Node) bool {
			switch x := nd.(type) {
			case *ast.BlockStmt:
				blocks = append(blocks, x.List)
			case *ast.CaseClause:
				blocks = append(blocks, x.Body)
			}
			return true
		})
		for _, list := range blocks {
			for i, st := range list {
				as, ok := st.(*ast.AssignStmt)
				if !ok || len(as.Lhs) != 1 || len(as.Rhs) != 1 || core.FieldOf(info, as.Lhs[0]) != fld {
					continue
				}
				// any value that may be true - except the constant false and the flag of another set (a copy of a
				// canonical set is canonical)
				if v, isC := core.ConstString(info, as.Rhs[0]); isC && v == "false" {
					continue
				}
				if core.FieldOf(info, as.Rhs[0]) == fld {
					continue
				}
				// ... or the all-flag of a result row the set is rebuilt from (the reviewed constructor outside package
				// common, rule <canon>-encap: canonical iff the row is)
				if nm, _ := callName(info, as.Rhs[0]); nm == "AllProtocolsAndPorts" {
					continue
				}
				n++
				recv := core.ExprStr(ast.Unparen(as.Lhs[0]).(*ast.SelectorExpr).X)
				ok2 := false
				for _, other := range list {
					a2, isAs := other.(*ast.AssignStmt)
					if !isAs || len(a2.Lhs) != 1 || core.FieldOf(info, a2.Lhs[0]) != mp {
						continue
					}
					if core.ExprStr(ast.Unparen(a2.Lhs[0]).(*ast.SelectorExpr).X) != recv {
						continue
					}
					if cl, isCl := ast.Unparen(a2.Rhs[0]).(*ast.CompositeLit); isCl && len(cl.Elts) == 0 {
						ok2 = true
					}
					if c, isC := ast.Unparen(a2.Rhs[0]).(*ast.CallExpr); isC && core.IsBuiltinCall(info, c, "make") {
						ok2 = true
					}
				}
				_ = i
				r.Check(ok2, rule, fmt.Sprintf("%s: setting AllowAll also empties the protocol map", fd.Key()), p.Pos(as.Pos()), "AllowedProtocols = fresh empty map in the same block",
					"AllowAll is set to true but the protocol map keeps its entries: the set prints as All Connections, yet Equal(all) is false, Copy carries the stale entries and Intersection resurrects them - two representations of the same set")
			}
		}
	}
	r.RuleCounts[rule] = n
	r.Floor(rule, 1) // merging the duplicated resets into one helper leaves a single instance
}

// ListEvalSiblingConditions is C03-e: the connection-set implementation (list) and the single-query implementation
// (eval) of one rule-port matcher must take their "this rule does not restrict ports" exit under the same condition.
func ListEvalSiblingConditions(p *core.Program, r *core.Report, rule string) {
	type pair struct {
		pkg, recvL, listFn, recvE, evalFn string
	}
	pairs := []pair{
		{core.PkgK8s, "", "ruleConnections", "", "anpPortContains"},
		{core.PkgK8s, "NetworkPolicy", "ruleConnections", "NetworkPolicy", "ruleConnsContain"},
	}
	for _, pr := range pairs {
		lf := p.Func(pr.pkg, pr.recvL, pr.listFn)
		ef := p.Func(pr.pkg, pr.recvE, pr.evalFn)
		if lf == nil || ef == nil {
			r.Lost(rule, pr.listFn+" / "+pr.evalFn)
			continue
		}
		// condition of the first return in each: normalised by replacing the ports parameter's name
		firstExit := func(fd *core.FuncDecl) (string, token.Pos) {
			info := fd.Pkg.TypesInfo
			sig := fd.Obj.Type().(*types.Signature)
			ports := sig.Params().At(0)
			for _, st := range fd.Decl.Body.List {
				ifs, ok := st.(*ast.IfStmt)
				if !ok || LastReturn(ifs.Body) == nil {
					continue
				}
				// the condition must mention the ports parameter only
				onlyPorts := true
				ast.Inspect(ifs.Cond, func(m ast.Node) bool {
					if id, isID := m.(*ast.Ident); isID {
						if v, isV := info.ObjectOf(id).(*types.Var); isV && v != ports && !v.IsField() {
							onlyPorts = false
						}
					}
					return true
				})
				if !onlyPorts {
					continue
				}
				w := facts.NewWalker(info)
				f := w.Cond(ifs.Cond)
				s := facts.StripVersions(facts.String(f))
				return strings.ReplaceAll(s, core.RefName(ports), "PORTS"), ifs.Pos()
			}
			return "", fd.Decl.Pos()
		}
		lc, lpos := firstExit(lf)
		ec, _ := firstExit(ef)
		r.Check(lc != "" && lc == ec, rule, fmt.Sprintf("%s and %s: the rule is unrestricted by ports under the same condition in list and in eval", lf.Key(), ef.Key()), p.Pos(lpos), lc,
			fmt.Sprintf("the list implementation treats the rule as matching all ports under `%s`, the eval implementation under `%s`: for a rule in between (e.g. a present but empty ports list) list and eval give opposite answers", lc, ec))
	}
	r.Floor(rule, 2)
}

// ContainerPortProtocolDefault is C01-proto: every function that reads the protocol of a container port handles the
// unset value (k8s default TCP) itself - the default is not applied where pods are built, so no consumer may rely on it.
func ContainerPortProtocolDefault(p *core.Program, r *core.Report, rule string) {
	n := 0
	for _, fd := range p.Funcs {
		info := fd.Pkg.TypesInfo
		reads, handlesEmpty := false, false
		var pos token.Pos
		ast.Inspect(fd.Decl.Body, func(nd ast.Node) bool {
			se, ok := nd.(*ast.SelectorExpr)
			if ok && fieldPathEndsWith(info, se, "ContainerPort", "Protocol") {
				reads = true
				if !pos.IsValid() {
					pos = se.Pos()
				}
			}
			// the switch form of the same test: switch <port>.Protocol { case "": ... }
			if sw, isSw := nd.(*ast.SwitchStmt); isSw && sw.Tag != nil && fieldPathEndsWith(info, sw.Tag, "ContainerPort", "Protocol") {
				for _, cc := range sw.Body.List {
					for _, e := range cc.(*ast.CaseClause).List {
						if v, isC := core.ConstString(info, e); isC && v == "" {
							handlesEmpty = true
						}
					}
				}
			}
			be, ok := nd.(*ast.BinaryExpr)
			if ok && (be.Op == token.EQL || be.Op == token.NEQ) {
				for _, pr := range [][2]ast.Expr{{be.X, be.Y}, {be.Y, be.X}} {
					if fieldPathEndsWith(info, pr[0], "ContainerPort", "Protocol") {
						if v, isC := core.ConstString(info, pr[1]); isC && v == "" {
							handlesEmpty = true
						}
					}
				}
			}
			return true
		})
		if !reads {
			continue
		}
		n++
		r.Check(handlesEmpty, rule, fd.Key()+": reads a container port's protocol and handles the unset value", p.Pos(pos), "compares the protocol with \"\"",
			"the function reads ContainerPort.Protocol without a test for the empty value: a container port written without `protocol` (TCP by default) is treated as a different protocol - but only for pods built on the path that does not normalise it, so the same template gives different reports as a Pod and as a workload")
	}
	r.RuleCounts[rule] = n
	r.Floor(rule, 2)
}

// LabelMatchingByLibrary is C01-match: whether a selector matches a real peer's labels is decided by the k8s
// library (labels.Selector.Matches); the only other verdict source is the documented representative-peer comparison.
func LabelMatchingByLibrary(p *core.Program, r *core.Report, rule string) {
	fd := p.Func(core.PkgK8s, "NetworkPolicy", "selectorsMatch")
	if fd == nil {
		r.Add(rule, "(*NetworkPolicy).selectorsMatch", "", core.Undecided, "renamed or removed: re-anchor the rule")
		return
	}
	info := fd.Pkg.TypesInfo
	n := 0
	w := facts.NewWalker(info)
	w.OnExit = func(st int, ret *ast.ReturnStmt, f facts.Formula) {
		if w.FuncLitDepth > 0 || ret == nil || len(ret.Results) == 0 {
			return
		}
		if IsErrorReturn(p, w, fd.Obj, ret, f) {
			return
		}
		n++
		e := ast.Unparen(ret.Results[0])
		ok := false
		how := core.ExprStr(e)
		if c, isC := e.(*ast.CallExpr); isC {
			if fn := core.Callee(info, c); fn != nil {
				if core.RefName(fn) == "Matches" && fn.Pkg() != nil && strings.HasSuffix(fn.Pkg().Path(), "apimachinery/pkg/labels") {
					ok = true
				}
				if core.RefName(fn) == "SelectorsFullMatch" {
					// only for representative peers
					for _, a := range facts.Atoms(f) {
						if strings.Contains(strings.ToLower(a), "representative") && facts.Entails(f, facts.Atom(a)) {
							ok = true
						}
					}
				}
			}
		}
		r.Check(ok, rule, fmt.Sprintf("%s: the verdict `%s` comes from the label-selector library (or, for a representative peer, from the documented full-match comparison)", fd.Key(), how), p.Pos(ret.Pos()), "",
			"a match verdict is computed by hand ("+how+"): shortcuts such as `a peer without labels matches only the empty selector` are wrong for NotIn / DoesNotExist requirements, which an unlabeled pod satisfies")
	}
	w.WalkBody(fd.Decl.Body, nil)
	r.RuleCounts[rule] = n
	r.Floor(rule, 2)
}

// PeerBeforePorts is E2-N3-pre, the premise of two exceptions of E2-N3 (dst.GetPeerPod() in the ANP port matchers):
// the ports of an admin-policy rule are examined only after the rule's peers selected the peer (which never select an
// IP block), in the single-query matchers and in the connection-set builders alike.
func PeerBeforePorts(p *core.Program, r *core.Report, rule string) {
	type site struct{ fn, sel string }
	// the functions that examine a rule's ports on the destination (named ports are resolved on its pod)
	portFns := map[*types.Func]bool{}
	for _, nm := range []string{"anpPortContains", "ruleConnections"} {
		if g := p.Func(core.PkgK8s, "", nm); g != nil {
			portFns[g.Obj] = true
		}
	}
	examinesPorts := func(g *types.Func) bool {
		if portFns[g] {
			return true
		}
		for h := range p.Reachable(g) {
			if portFns[h] {
				return true
			}
		}
		return false
	}
	for _, s := range []site{
		{"checkIfEgressRuleContainsConn", "egressRuleSelectsPeer"},
		{"checkIfIngressRuleContainsConn", "ingressRuleSelectsPeer"},
		{"updateConnsIfEgressRuleSelectsPeer", "egressRuleSelectsPeer"},
		{"updateConnsIfIngressRuleSelectsPeer", "ingressRuleSelectsPeer"},
	} {
		fd := p.Func(core.PkgK8s, "", s.fn)
		if fd == nil {
			r.Lost(rule, "k8s."+s.fn)
			continue
		}
		info := fd.Pkg.TypesInfo
		// every call that examines the ports - directly or through a helper, whatever it is called - runs where the
		// selection result is known to be true
		var portsCalls []*ast.CallExpr
		var selCall *ast.CallExpr
		ast.Inspect(fd.Decl.Body, func(nd ast.Node) bool {
			if c, ok := nd.(*ast.CallExpr); ok {
				if fn := core.Callee(info, c); fn != nil && p.IsModuleFunc(fn) {
					if core.RefName(fn) == s.sel {
						selCall = c
					} else if examinesPorts(fn) {
						portsCalls = append(portsCalls, c)
					}
				}
			}
			return true
		})
		ok := false
		if len(portsCalls) > 0 && selCall != nil {
			// the selection result variable is known true at the ports call
			as, _ := enclosingStmt(fd.Decl.Body, selCall.Pos()).(*ast.AssignStmt)
			if as != nil {
				if id, isID := as.Lhs[0].(*ast.Ident); isID {
					ok = true
					for _, portsCall := range portsCalls {
						fm, paths, found := FactsAtWith(fd, portsCall, nil, []ast.Expr{id})
						if !found || len(paths) != 1 || !facts.Entails(fm, facts.Atom("b:"+paths[0])) {
							// the common tail of the siblings extracted into a helper: the selection result is handed to it and
							// every examination of the ports in the helper runs where that parameter is known to be true
							if !portsGuardedInCallee(p, info, portsCall, info.ObjectOf(id), examinesPorts) {
								ok = false
							}
						}
					}
				}
			}
		}
		r.Check(ok, rule, fmt.Sprintf("%s: the rule's ports are examined only after %s answered true", fd.Key(), s.sel), p.Pos(fd.Decl.Pos()), "",
			"the port matcher runs before (or regardless of) the peer selection: for a destination that is an IP block a named port is then resolved on a nil pod (crash), and ports of rules that do not select the peer are examined")
	}
	r.Floor(rule, 4)
}

// portsGuardedInCallee: call hands the variable sel to a module function as a parameter, and inside that function every
// call that examines a rule's ports is made where that parameter is known to be true.
func portsGuardedInCallee(p *core.Program, info *types.Info, call *ast.CallExpr, sel types.Object, examinesPorts func(*types.Func) bool) bool {
	fn := core.Callee(info, call)
	if fn == nil {
		return false
	}
	h := p.ByObj[fn]
	if h == nil {
		return false
	}
	idx := -1
	for i, a := range call.Args {
		if id, ok := ast.Unparen(a).(*ast.Ident); ok && info.ObjectOf(id) == sel {
			idx = i
		}
	}
	sig := fn.Type().(*types.Signature)
	if idx < 0 || idx >= sig.Params().Len() {
		return false
	}
	param := sig.Params().At(idx)
	var pid *ast.Ident
	for _, fl := range h.Decl.Type.Params.List {
		for _, nm := range fl.Names {
			if h.Pkg.TypesInfo.ObjectOf(nm) == param {
				pid = nm
			}
		}
	}
	if pid == nil {
		return false
	}
	hinfo := h.Pkg.TypesInfo
	anyCall, all := false, true
	ast.Inspect(h.Decl.Body, func(nd ast.Node) bool {
		c, ok := nd.(*ast.CallExpr)
		if !ok {
			return true
		}
		g := core.Callee(hinfo, c)
		if g == nil || !p.IsModuleFunc(g) || !examinesPorts(g) {
			return true
		}
		anyCall = true
		fm, paths, found := FactsAtWith(h, c, nil, []ast.Expr{pid})
		if !found || len(paths) != 1 || !facts.Entails(fm, facts.Atom("b:"+paths[0])) {
			all = false
		}
		return true
	})
	return anyCall && all
}

// UnconditionalIPBlockContribution is C14-f: every ipBlock peer of every rule contributes its ranges to the list from
// which the IP peers are cut; the only peers skipped are those without an ipBlock. (A block that is skipped because
// it looks redundant takes its boundaries with it, and its rule then matches no IP peer.)
func UnconditionalIPBlockContribution(p *core.Program, r *core.Report, rule string) {
	fd := p.Func(core.PkgK8s, "NetworkPolicy", "rulePeersReferencedIPBlocks")
	if fd == nil {
		r.Add(rule, "(*NetworkPolicy).rulePeersReferencedIPBlocks", "", core.Undecided, "renamed or removed: re-anchor the rule")
		return
	}
	info := fd.Pkg.TypesInfo
	n := 0
	w := facts.NewWalker(info)
	w.OnStmt = func(s ast.Stmt, f facts.Formula) {
		as, ok := s.(*ast.AssignStmt)
		if !ok || len(as.Rhs) != 1 || len(w.Loops) == 0 {
			return
		}
		c, ok := ast.Unparen(as.Rhs[0]).(*ast.CallExpr)
		if !ok || !core.IsBuiltinCall(info, c, "append") {
			return
		}
		if !strings.Contains(types.TypeString(info.TypeOf(c), nil), "IPBlock") {
			return
		}
		n++
		// the facts at the append: only "this peer has an ipBlock" and "no error"
		var extra []string
		for _, a := range facts.Atoms(f) {
			s2 := facts.StripVersions(a)
			if strings.HasPrefix(s2, "nil:") && (strings.HasSuffix(s2, ".IPBlock") || !strings.ContainsAny(s2[4:], ".[(")) {
				continue // the ipBlock test itself, or the nil test of a plain local (the error of the parse)
			}
			// an already-seen test on a boolean map is a de-duplication of equal elements, judged by rule C14-e (key completeness)
			if strings.HasPrefix(s2, "b:") && strings.Contains(s2, "[") && strings.HasSuffix(s2, "]") && facts.Entails(f, facts.Not{X: facts.Atom(a)}) {
				continue
			}
			extra = append(extra, s2)
		}
		r.Check(len(extra) == 0, rule, fd.Key()+": every ipBlock peer contributes its ranges (the only skipped peers are those without an ipBlock)", p.Pos(as.Pos()), "append under `IPBlock != nil` (and no error) only",
			"the ranges of an ipBlock peer are added only under a further condition ("+strings.Join(extra, ", ")+"): a block skipped here (already seen, contained in earlier ones, ...) does not cut the IP peers at its boundaries, so the rule it belongs to no longer matches any IP peer")
	}
	w.WalkBody(fd.Decl.Body, nil)
	r.RuleCounts[rule] = n
	r.Floor(rule, 1)
}

// EngineBuiltForEveryInput is C19-d: the policy engine is populated - which is where every conflict is detected - on
// every path of the analysis entry that does not fail earlier; no early successful return precedes it.
func EngineBuiltForEveryInput(p *core.Program, r *core.Report, rule string) {
	fd := p.Func(core.PkgConnlist, "ConnlistAnalyzer", "connsListFromParsedResources")
	if fd == nil {
		r.Add(rule, "(*ConnlistAnalyzer).connsListFromParsedResources", "", core.Undecided, "renamed or removed: re-anchor the rule")
		return
	}
	info := fd.Pkg.TypesInfo
	bad := ""
	seen := false
	w := facts.NewWalker(info)
	w.Transfer = func(st int, nd ast.Node, f facts.Formula) int {
		if c, ok := nd.(*ast.CallExpr); ok {
			// the engine is built: through getPolicyEngine, or (when that was inlined) by the constructors themselves. With
			// the exposure option the engine is created empty first and then fed; only the feeding call counts there.
			if fn := core.Callee(info, c); fn != nil {
				switch core.RefName(fn) {
				case "getPolicyEngine", "NewPolicyEngineWithObjects", "AddObjectsForExposureAnalysis":
					seen = true
					return 1
				}
			}
		}
		return st
	}
	w.OnExit = func(st int, ret *ast.ReturnStmt, f facts.Formula) {
		if w.FuncLitDepth > 0 {
			return
		}
		if st == 0 && !IsErrorReturn(p, w, fd.Obj, ret, f) {
			pos := fd.Decl.End()
			if ret != nil {
				pos = ret.Pos()
			}
			bad = p.Pos(pos)
		}
	}
	w.WalkBody(fd.Decl.Body, nil)
	r.Check(seen && bad == "", rule, fd.Key()+": every successful path builds the policy engine from the parsed objects", p.Pos(fd.Decl.Pos()), "",
		"the analysis can return successfully (at "+bad+") without having populated the policy engine: duplicate names, equal priorities, a second baseline policy are detected while the engine is populated, so such an input is accepted silently")
	// the entry: a successful answer that does not come from connsListFromParsedResources is given only where
	// stopProcessing() is known to hold (a severe error with stop-on-error, or a fatal one) - not for any other
	// reason to "skip the work" (no workloads, nothing to list): the conflicts are found while the engine is built
	if entry := p.Func(core.PkgConnlist, "ConnlistAnalyzer", "ConnlistFromResourceInfos"); entry != nil {
		einfo := entry.Pkg.TypesInfo
		ew := facts.NewWalker(einfo)
		badE := ""
		nFwd := 0
		ew.OnExit = func(st int, ret *ast.ReturnStmt, f facts.Formula) {
			if ew.FuncLitDepth > 0 || ret == nil || IsErrorReturn(p, ew, entry.Obj, ret, f) || !facts.Satisfiable(f) {
				return
			}
			if len(ret.Results) == 1 {
				if c, ok := ast.Unparen(ret.Results[0]).(*ast.CallExpr); ok && core.Callee(einfo, c) == fd.Obj {
					nFwd++
					return
				}
			}
			stopKnown := false
			for _, a := range facts.Atoms(f) {
				if strings.HasPrefix(a, "b:") && strings.HasSuffix(facts.StripVersions(a), ".stopProcessing()") && facts.Entails(f, facts.Atom(a)) {
					stopKnown = true
				}
			}
			if !stopKnown && badE == "" {
				badE = p.Pos(ret.Pos()) + " under " + facts.StripVersions(facts.String(f))
			}
		}
		ew.WalkBody(entry.Decl.Body, nil)
		r.Check(badE == "" && nFwd > 0, rule, entry.Key()+": answers without building the engine only when processing has to stop", p.Pos(entry.Decl.Pos()), "",
			"the entry returns successfully without the analysis ("+badE+") where stopProcessing() is not known to hold: policy conflicts (equal priorities, duplicate names, a second baseline policy) are detected only while the engine is populated, so such an input is accepted silently")
	} else {
		r.Lost(rule, "(*ConnlistAnalyzer).ConnlistFromResourceInfos")
	}
	// and getPolicyEngine hands ALL objects to the engine
	if ge := p.Func(core.PkgConnlist, "ConnlistAnalyzer", "getPolicyEngine"); ge != nil {
		ginfo := ge.Pkg.TypesInfo
		prm := ge.Obj.Type().(*types.Signature).Params().At(0)
		nCalls, okAll := 0, true
		ast.Inspect(ge.Decl.Body, func(nd ast.Node) bool {
			c, ok := nd.(*ast.CallExpr)
			if !ok {
				return true
			}
			fn := core.Callee(ginfo, c)
			if fn == nil || (core.RefName(fn) != "NewPolicyEngineWithObjects" && core.RefName(fn) != "AddObjectsForExposureAnalysis") {
				return true
			}
			nCalls++
			id, isID := ast.Unparen(c.Args[0]).(*ast.Ident)
			if !isID || ginfo.ObjectOf(id) != prm {
				okAll = false
			}
			return true
		})
		r.Check(nCalls >= 2 && okAll, rule, ge.Key()+": the engine receives the whole object list on both construction paths", p.Pos(ge.Decl.Pos()), "", "the engine is built from a filtered or different list")
	}
	r.Floor(rule, 2)
}

// SliceShrinkByIdentity is C02-shrink: the priority-sorted list of admin policies is shrunk only by removing the
// element that IS the given policy (identity or name comparison inside a search loop) - never by position.
func SliceShrinkByIdentity(p *core.Program, r *core.Report, rule string) {
	fld := p.Field(core.PkgEval, "PolicyEngine", "sortedAdminNetpols")
	if fld == nil {
		r.Lost(rule, "PolicyEngine.sortedAdminNetpols")
		return
	}
	n := 0
	for _, fd := range p.FuncsIn(core.PkgEval) {
		info := fd.Pkg.TypesInfo
		sig := fd.Obj.Type().(*types.Signature)
		mentionsParam := func(e ast.Node) bool {
			hit := false
			ast.Inspect(e, func(m ast.Node) bool {
				if id, ok := m.(*ast.Ident); ok {
					o := info.ObjectOf(id)
					for i := 0; i < sig.Params().Len(); i++ {
						if o == types.Object(sig.Params().At(i)) {
							hit = true
						}
					}
				}
				return !hit
			})
			return hit
		}
		slicesCall := func(e ast.Expr, names ...string) *ast.CallExpr {
			c, ok := ast.Unparen(e).(*ast.CallExpr)
			if !ok {
				return nil
			}
			fn := core.Callee(info, c)
			if fn == nil || fn.Pkg() == nil || fn.Pkg().Path() != "slices" || len(c.Args) < 2 || FieldBehind(fd, c.Args[0]) != fld {
				return nil
			}
			for _, nm := range names {
				if core.RefName(fn) == nm {
					return c
				}
			}
			return nil
		}
		w := facts.NewWalker(info)
		w.OnStmt = func(s ast.Stmt, f facts.Formula) {
			as, ok := s.(*ast.AssignStmt)
			if !ok || len(as.Lhs) != 1 || len(as.Rhs) != 1 || core.FieldOf(info, as.Lhs[0]) != fld {
				return
			}
			c := fd.Key() + ": the sorted admin-policy list loses exactly the policy that was asked for"
			okWhy := "removal at the index found by comparing the element with the given policy"
			badWhy := "an element is removed from the priority-sorted list by position (or outside the search for the given policy): after a sort the rejected or deleted policy is no longer where it was appended, so a different policy disappears and precedence is evaluated over the wrong set"
			// slices.DeleteFunc(field, pred): the predicate compares its element with the given policy
			if dc := slicesCall(as.Rhs[0], "DeleteFunc"); dc != nil {
				n++
				r.Check(mentionsParam(ResolveLocal(info, fd.Decl.Body, dc.Args[1])), rule, c, p.Pos(as.Pos()), okWhy, badWhy)
				return
			}
			// a shrink: the right-hand side slices the field, or is slices.Delete on it
			var idxExprs []ast.Expr
			ast.Inspect(as.Rhs[0], func(m ast.Node) bool {
				if sl, isSl := m.(*ast.SliceExpr); isSl && core.FieldOf(info, sl.X) == fld {
					if sl.Low != nil {
						idxExprs = append(idxExprs, sl.Low)
					}
					if sl.High != nil {
						idxExprs = append(idxExprs, sl.High)
					}
					if sl.Low == nil && sl.High == nil {
						idxExprs = append(idxExprs, sl.X)
					}
				}
				return true
			})
			if dc := slicesCall(as.Rhs[0], "Delete"); dc != nil {
				idxExprs = append(idxExprs, dc.Args[1:]...)
			}
			if len(idxExprs) == 0 {
				return
			}
			n++
			// (a) inside a loop over the field, under a comparison of the element with a parameter
			ok2 := false
			if len(w.Loops) > 0 {
				for _, a := range facts.Atoms(f) {
					if (strings.HasPrefix(a, "eq:") || strings.HasPrefix(a, "cmp:")) && facts.Entails(f, facts.Atom(a)) {
						for i := 0; i < sig.Params().Len(); i++ {
							if strings.Contains(a, core.RefName(sig.Params().At(i))) {
								ok2 = true
							}
						}
					}
				}
			}
			// (b) every index used is derived from slices.Index / IndexFunc of the field for the given policy
			if !ok2 {
				all := true
				for _, ie := range idxExprs {
					found := false
					ast.Inspect(ie, func(m ast.Node) bool {
						id, isId := m.(*ast.Ident)
						if !isId {
							return true
						}
						if d, _ := defOf(fd, id); d != nil {
							if ic := slicesCall(d, "Index", "IndexFunc"); ic != nil && mentionsParam(ResolveLocal(info, fd.Decl.Body, ic.Args[1])) {
								found = true
							}
						}
						return true
					})
					if !found {
						all = false
					}
				}
				ok2 = all
			}
			r.Check(ok2, rule, c, p.Pos(as.Pos()), okWhy, badWhy)
		}
		w.WalkBody(fd.Decl.Body, nil)
	}
	r.RuleCounts[rule] = n
	r.Floor(rule, 1)
}

// DiffWorkloadKeyAgreement is C04-g: the diff identifies a workload by Peer.String() (namespace/name[kind]) in the
// pair key; the set that decides "new" / "lost" must be filled and consulted with the same key function.
func DiffWorkloadKeyAgreement(p *core.Program, r *core.Report, rule string) {
	fill := p.Func(core.PkgDiff, "", "getPeersNamesFromPeersList")
	look := p.Func(core.PkgDiff, "connsPair", "updateNewOrLostFields")
	if fill == nil || look == nil {
		r.Lost(rule, "diff.getPeersNamesFromPeersList / (*connsPair).updateNewOrLostFields")
		return
	}
	isPeerString := func(info *types.Info, e ast.Expr) bool {
		c, ok := ast.Unparen(e).(*ast.CallExpr)
		if !ok || len(c.Args) != 0 {
			return false
		}
		fn := core.Callee(info, c)
		if fn == nil || core.RefName(fn) != "String" {
			return false
		}
		se, ok := ast.Unparen(c.Fun).(*ast.SelectorExpr)
		if !ok {
			return false
		}
		t := info.TypeOf(se.X)
		return t != nil && strings.HasSuffix(t.String(), "Peer")
	}
	// fill: every store into the returned set is keyed by <peer>.String()
	{
		info := fill.Pkg.TypesInfo
		n, ok := 0, true
		ast.Inspect(fill.Decl.Body, func(nd ast.Node) bool {
			as, isAs := nd.(*ast.AssignStmt)
			if !isAs || len(as.Lhs) != 1 {
				return true
			}
			ix, isIx := ast.Unparen(as.Lhs[0]).(*ast.IndexExpr)
			if !isIx {
				return true
			}
			n++
			if !isPeerString(info, ix.Index) {
				ok = false
			}
			return true
		})
		r.Check(n > 0 && ok, rule, fill.Key()+": the set of a report's workloads is keyed by Peer.String()", p.Pos(fill.Decl.Pos()), "", "the workload set is keyed by something other than Peer.String(): the pair key distinguishes workloads by namespace/name[kind], so a coarser or finer key here mislabels new and lost workloads")
	}
	{
		info := look.Pkg.TypesInfo
		sig := look.Obj.Type().(*types.Signature)
		var setP *types.Var
		for i := 0; i < sig.Params().Len(); i++ {
			if _, isMap := sig.Params().At(i).Type().Underlying().(*types.Map); isMap {
				setP = sig.Params().At(i)
			}
		}
		n, ok := 0, true
		// lookups in the function itself, or in a helper the set is handed to
		var scan func(fd *core.FuncDecl, set *types.Var, depth int)
		scan = func(fd *core.FuncDecl, set *types.Var, depth int) {
			finfo := fd.Pkg.TypesInfo
			ast.Inspect(fd.Decl.Body, func(nd ast.Node) bool {
				switch x := nd.(type) {
				case *ast.IndexExpr:
					id, isID := ast.Unparen(x.X).(*ast.Ident)
					if !isID || finfo.ObjectOf(id) != types.Object(set) {
						return true
					}
					n++
					if !isPeerString(finfo, x.Index) {
						ok = false
					}
				case *ast.CallExpr:
					fn := core.Callee(finfo, x)
					hd := p.ByObj[fn]
					if hd == nil || depth >= 2 {
						return true
					}
					hsig := fn.Type().(*types.Signature)
					for k, a := range x.Args {
						if id, isID := ast.Unparen(a).(*ast.Ident); isID && finfo.ObjectOf(id) == types.Object(set) && k < hsig.Params().Len() {
							scan(hd, hsig.Params().At(k), depth+1)
						}
					}
				}
				return true
			})
		}
		_ = info
		scan(look, setP, 0)
		r.Check(n >= 1 && ok, rule, look.Key()+": new / lost is decided by looking the peer's String() up in the other report's workload set", p.Pos(look.Decl.Pos()), fmt.Sprintf("%d lookups", n), "the new/lost lookup uses a key other than Peer.String()")
	}
}

// KeyAndMatcherNormaliseAlike is C07-b-norm: the key under which representative peers are de-duplicated and the
// comparison that decides whether a rule matches a representative peer must induce the same equivalence on selectors;
// structurally: the key function applies no re-ordering or case/space normalisation that the matcher does not apply.
func KeyAndMatcherNormaliseAlike(p *core.Program, r *core.Report, rule string) {
	kf := p.Func(core.PkgK8s, "", "UniqueKeyFromLabelsSelector")
	mf := p.Func(core.PkgK8s, "", "SelectorsFullMatch")
	if kf == nil || mf == nil {
		r.Lost(rule, "k8s.UniqueKeyFromLabelsSelector / SelectorsFullMatch")
		return
	}
	ownOnly := false
	normalisers := func(fd *core.FuncDecl) map[string]bool {
		out := map[string]bool{}
		seen := map[*types.Func]bool{}
		var rec func(fd *core.FuncDecl)
		rec = func(fd *core.FuncDecl) {
			if seen[fd.Obj] || (ownOnly && len(seen) > 0) {
				return
			}
			seen[fd.Obj] = true
			info := fd.Pkg.TypesInfo
			ast.Inspect(fd.Decl.Body, func(nd ast.Node) bool {
				// a set of strings kept in a map: de-duplicates
				if as, isAs := nd.(*ast.AssignStmt); isAs && len(as.Lhs) == 1 {
					if ix, isIx := ast.Unparen(as.Lhs[0]).(*ast.IndexExpr); isIx {
						if mt, isM := info.TypeOf(ix.X).Underlying().(*types.Map); isM {
							if kb, isB := mt.Key().Underlying().(*types.Basic); isB && kb.Info()&types.IsString != 0 {
								switch mt.Elem().Underlying().(type) {
								case *types.Basic, *types.Struct:
									out["map used as a set of strings (de-duplicates)"] = true
								}
							}
						}
					}
				}
				c, ok := nd.(*ast.CallExpr)
				if !ok {
					return true
				}
				fn := core.Callee(info, c)
				if fn == nil || fn.Pkg() == nil {
					return true
				}
				if strings.HasSuffix(fn.Pkg().Path(), "apimachinery/pkg/util/sets") {
					out["sets (de-duplicates and sorts)"] = true
				}
				switch fn.Pkg().Path() {
				case "sort", "slices":
					out[fn.Pkg().Path()+"."+core.RefName(fn)] = true
				case "strings":
					switch core.RefName(fn) {
					case "ToLower", "ToUpper", "TrimSpace", "Trim", "Fields", "ReplaceAll", "Replace", "Title":
						out["strings."+core.RefName(fn)] = true
					}
				}
				if sub := p.ByObj[fn]; sub != nil && sub.Pkg.PkgPath == core.PkgK8s {
					rec(sub)
				}
				return true
			})
		}
		rec(fd)
		return out
	}
	kn, mn := normalisers(kf), normalisers(mf)
	var extra []string
	for k := range kn {
		if !mn[k] {
			extra = append(extra, k)
		}
	}
	// and at the level of the two functions themselves (the list of requirements as a whole): what the key function does
	// to that list in its own body, the matcher does in its own body too - a helper deeper down that both share (e.g.
	// sorting the VALUES inside one requirement) must not hide a de-duplication or re-ordering of the requirements
	ownOnly = true
	kno, mno := normalisers(kf), normalisers(mf)
	ownOnly = false
	for k := range kno {
		if !mno[k] {
			dup := false
			for _, e := range extra {
				if e == k {
					dup = true
				}
			}
			if !dup {
				extra = append(extra, k+" (on the list of requirements)")
			}
		}
	}
	r.Check(len(extra) == 0, rule, kf.Key()+": the de-duplication key normalises selectors no further than the rule matcher does", p.Pos(kf.Decl.Pos()), fmt.Sprintf("key: %v, matcher: %v", sortedKeys(kn), sortedKeys(mn)),
		"the key function applies "+strings.Join(extra, ", ")+" which SelectorsFullMatch does not: two rules whose selectors the matcher tells apart now share one representative peer, the second rule does not match it, and its connections appear in no exposure entry")
}

// RepresentativePairExclusionTable is C07-g: a (peer, peer) pair with a representative end is left out of the
// exposure computation only in the three documented cases.
func RepresentativePairExclusionTable(p *core.Program, r *core.Report, rule string) {
	fd := p.Func(core.PkgConnlist, "ConnlistAnalyzer", "includePairWithRepresentativePeer")
	if fd == nil {
		r.Add(rule, "(*ConnlistAnalyzer).includePairWithRepresentativePeer", "", core.Undecided, "renamed or removed: re-anchor the rule")
		return
	}
	info := fd.Pkg.TypesInfo
	sig := fd.Obj.Type().(*types.Signature)
	if sig.Params().Len() < 3 {
		r.Add(rule, fd.Key()+": signature", p.Pos(fd.Decl.Pos()), core.Undecided, "expected (pe, src, dst)")
		return
	}
	src, dst := sig.Params().At(sig.Params().Len()-2), sig.Params().At(sig.Params().Len()-1)
	ingName := ""
	if pk := p.ByPath[core.PkgCommon]; pk != nil {
		if c, ok := pk.Types.Scope().Lookup("IngressPodName").(*types.Const); ok {
			ingName = c.Val().ExactString()
		}
	}
	if ingName == "" {
		r.Add(rule, "common.IngressPodName", "", core.Undecided, "constant renamed or removed: re-anchor the rule")
		return
	}
	// Decided on the path condition of every negative answer (helpers and boolean locals unfolded by the walker), not on
	// the shape of the conditions: a `return false` is legitimate iff its path entails
	//   (rep(src) & rep(dst))  |  (rep(src)|rep(dst)) & (ip(src)|ip(dst))  |  (rep(src)|rep(dst)) & (ing(src)|ing(dst)).
	w := facts.NewWalker(info)
	w.Atomize = PeerTypeAtomizer(info)
	w.Inline = true
	n := 0
	absorbed := core.RefName(fd.Obj) != "includePairWithRepresentativePeer"
	w.OnExit = func(st int, ret *ast.ReturnStmt, f facts.Formula) {
		if w.FuncLitDepth > 0 || ret == nil || len(ret.Results) != 1 {
			return
		}
		s, d := w.PathOfVar(src), w.PathOfVar(dst)
		// rep atoms: any b:<x>.IsRepresentativePeer(<peer>) atom in scope
		var repS, repD facts.Formula = facts.False{}, facts.False{}
		for _, a := range facts.Atoms(f) {
			if strings.HasPrefix(a, "b:") && strings.Contains(a, ".IsRepresentativePeer(") {
				if strings.HasSuffix(a, "("+s+")") {
					repS = facts.Atom(a)
				}
				if strings.HasSuffix(a, "("+d+")") {
					repD = facts.Atom(a)
				}
			}
		}
		ipS, ipD := facts.Atom("isIP:"+s), facts.Atom("isIP:"+d)
		ingS, ingD := facts.Atom("eq:"+s+".Name()=="+ingName), facts.Atom("eq:"+d+".Name()=="+ingName)
		someRep := facts.Or{L: repS, R: repD}
		documented := facts.Or{L: facts.And{L: repS, R: repD}, R: facts.Or{
			L: facts.And{L: someRep, R: facts.Or{L: ipS, R: ipD}},
			R: facts.And{L: someRep, R: facts.Or{L: ingS, R: ingD}}}}
		if v, ok := core.ConstString(info, ret.Results[0]); ok && v == "true" {
			return
		}
		if !facts.Satisfiable(f) {
			return
		}
		if absorbed {
			// the dedicated function is gone (inlined into its caller, which also applies filters that have nothing to do with
			// representative peers): the rule covers the answers given because exposure analysis is on
			under := false
			for _, a := range facts.Atoms(f) {
				if strings.HasPrefix(a, "b:") && strings.HasSuffix(facts.StripVersions(a), ".exposureAnalysis") && facts.Entails(f, facts.Atom(a)) {
					under = true
				}
			}
			if !under {
				return
			}
		}
		n++
		c := fmt.Sprintf("%s: negative answer `return %s` is given only in the three documented cases", fd.Key(), core.Stable(info, ret.Results[0]))
		if v, ok := core.ConstString(info, ret.Results[0]); !ok || v != "false" {
			// a computed answer: it must imply nothing more than the documented cases when false - not decidable here
			neg := facts.MkAnd(f, facts.MkNot(w.Cond(ret.Results[0])))
			r.Check(!facts.Satisfiable(neg) || facts.Entails(neg, documented), rule, c, p.Pos(ret.Pos()), "",
				"the computed answer can be false outside the documented cases (path: "+facts.StripVersions(facts.String(neg))+"): the exposure of the workload towards that representative peer is then never computed and goes unreported")
			return
		}
		r.Check(facts.Entails(f, documented), rule, c, p.Pos(ret.Pos()), "path: "+facts.StripVersions(facts.String(f)),
			"a pair with a representative peer is excluded on the path ("+facts.StripVersions(facts.String(f))+"), which is not within: both ends representative, representative with an IP block, representative with the ingress controller - the exposure of the workload towards that representative peer is then never computed and goes unreported")
	}
	w.WalkBody(fd.Decl.Body, nil)
	r.RuleCounts[rule] = n
	r.Floor(rule, 1)
}

// AdminSelectionExcludesIPs is E2-N3-sel, the premise of the parameter invariants of E2-N3 (the destination whose named
// ports an admin-policy rule resolves is a pod): the admin-policy peer selection functions answer true only for a peer
// that is known not to be an IP block. Decided by provenance of the answer: a constant true must sit on a path that
// entails !isIP(peer); a variable answer is judged at each of its assignments; an answer taken from a callee that is
// handed the peer is judged in the callee (recursively). A new way of selecting (e.g. by CIDR) that can answer true
// for an IP block breaks the premise, and with it the guarantee that named ports are never resolved on a nil pod.
func AdminSelectionExcludesIPs(p *core.Program, r *core.Report, rule string) {
	memo := map[string]int{} // 0 unknown, 1 in progress / ok, 2 bad
	why := map[string]string{}
	var positive func(fd *core.FuncDecl, k int, depth int) bool
	positive = func(fd *core.FuncDecl, k int, depth int) bool {
		key := fmt.Sprintf("%s#%d", fd.Key(), k)
		switch memo[key] {
		case 1:
			return true
		case 2:
			return false
		}
		memo[key] = 1
		info := fd.Pkg.TypesInfo
		sig := fd.Obj.Type().(*types.Signature)
		if k >= sig.Params().Len() || depth > 4 {
			memo[key] = 2
			why[key] = "the peer is not followed into " + fd.Key()
			return false
		}
		peer := sig.Params().At(k)
		w := facts.NewWalker(info)
		w.Atomize = PeerTypeAtomizer(info)
		w.Inline = true
		type site struct {
			e ast.Expr
			f facts.Formula
			p string
		}
		var rets []site
		assigns := map[types.Object][]site{}
		w.OnStmt = func(s ast.Stmt, f facts.Formula) {
			if w.FuncLitDepth > 0 {
				return
			}
			pp := w.PathOfVar(peer)
			switch x := s.(type) {
			case *ast.ReturnStmt:
				if len(x.Results) > 0 {
					rets = append(rets, site{x.Results[0], f, pp})
				}
			case *ast.AssignStmt:
				for i, l := range x.Lhs {
					id, ok := ast.Unparen(l).(*ast.Ident)
					if !ok {
						continue
					}
					var rhs ast.Expr
					if len(x.Rhs) == len(x.Lhs) {
						rhs = x.Rhs[i]
					} else if len(x.Rhs) == 1 && i == 0 {
						rhs = x.Rhs[0]
					}
					if rhs != nil {
						assigns[info.ObjectOf(id)] = append(assigns[info.ObjectOf(id)], site{rhs, f, pp})
					}
				}
			}
		}
		w.WalkBody(fd.Decl.Body, nil)
		okAll := true
		var judge func(s site, seen map[types.Object]bool) bool
		judge = func(s site, seen map[types.Object]bool) bool {
			e := ast.Unparen(s.e)
			if v, isC := core.ConstString(info, e); isC && v == "false" {
				return true
			}
			if facts.Entails(s.f, facts.MkNot(facts.Atom("isIP:"+s.p))) || !facts.Satisfiable(s.f) {
				return true
			}
			switch x := e.(type) {
			case *ast.Ident:
				o := info.ObjectOf(x)
				if as, has := assigns[o]; has && !seen[o] {
					seen[o] = true
					for _, a := range as {
						if !judge(a, seen) {
							return false
						}
					}
					return true
				}
			case *ast.CallExpr:
				fn := core.Callee(info, x)
				hd := p.ByObj[fn]
				if hd == nil {
					for _, g := range p.Impls(fn) {
						if gd := p.ByObj[g]; gd != nil {
							hd = gd
						}
					}
				}
				if hd != nil {
					for j, a := range x.Args {
						if id, isId := ast.Unparen(a).(*ast.Ident); isId && info.ObjectOf(id) == types.Object(peer) {
							if positive(hd, j, depth+1) {
								return true
							}
							why[key] = why[fmt.Sprintf("%s#%d", hd.Key(), j)]
							return false
						}
					}
				}
			}
			// the answer is given under a flag (`if fieldMatch { return true }`): it is positive only where the flag is,
			// so the provenance of the flag decides
			for o, as := range assigns {
				v, isV := o.(*types.Var)
				if !isV || seen[o] {
					continue
				}
				if b, isB := v.Type().Underlying().(*types.Basic); !isB || b.Info()&types.IsBoolean == 0 {
					continue
				}
				entailed := false
				for _, a := range facts.Atoms(s.f) {
					if facts.StripVersions(a) == "b:"+v.Name() && facts.Entails(s.f, facts.Atom(a)) {
						entailed = true
					}
				}
				if !entailed {
					continue
				}
				seen[o] = true
				all := true
				for _, a := range as {
					if !judge(a, seen) {
						all = false
					}
				}
				if all {
					return true
				}
			}
			if why[key] == "" {
				why[key] = fmt.Sprintf("`%s` at %s can be true where the peer may be an IP block (path: %s)", core.ExprStr(e), p.Pos(e.Pos()), facts.StripVersions(facts.String(s.f)))
			}
			return false
		}
		for _, rt := range rets {
			if !judge(rt, map[types.Object]bool{}) {
				okAll = false
			}
		}
		if okAll {
			memo[key] = 1
		} else {
			memo[key] = 2
		}
		return okAll
	}
	n := 0
	for _, name := range []string{"egressRuleSelectsPeer", "ingressRuleSelectsPeer", "subjectSelectsPeer"} {
		fd := p.Func(core.PkgK8s, "", name)
		if fd == nil {
			r.Lost(rule, "k8s."+name)
			continue
		}
		sig := fd.Obj.Type().(*types.Signature)
		k := -1
		for i := 0; i < sig.Params().Len(); i++ {
			if isPeerish(sig.Params().At(i).Type()) {
				k = i
			}
		}
		if k < 0 {
			r.Add(rule, fd.Key()+": has a peer parameter", p.Pos(fd.Decl.Pos()), core.Undecided, "no peer parameter found")
			continue
		}
		n++
		ok := positive(fd, k, 0)
		r.Check(ok, rule, fd.Key()+": answers true only for a peer that is not an IP block", p.Pos(fd.Decl.Pos()), "every positive answer is given, here or in the callee it comes from, on a path that excludes IP blocks",
			"an admin-policy selection can answer true for an IP block ("+why[fmt.Sprintf("%s#%d", fd.Key(), k)]+"): the port matchers that follow resolve named ports on the peer's pod, which is nil for an IP block - a crash for a rule that combines such a peer with a named port")
	}
	r.Floor(rule, 2)
	_ = n
}

// NetpolPeerBeforePorts is C03-peer-first: wherever a NetworkPolicy rule's ports are examined for a concrete destination
// (ruleConnsContain on the eval side, ruleConnections on the list side - the functions that convert a named port and
// fail for an IP destination), the same function has asked ruleSelectsPeer first and the answer is known to be true at
// that point. `ports contain the connection && peers select the peer` is not commutative: the port step is partial.
// Anchored by the effect (the calls), not by the functions that happen to contain them today.
func NetpolPeerBeforePorts(p *core.Program, r *core.Report, rule string) {
	sel := p.Func(core.PkgK8s, "NetworkPolicy", "ruleSelectsPeer")
	if sel == nil {
		r.Lost(rule, "(*NetworkPolicy).ruleSelectsPeer")
		return
	}
	portFns := map[*types.Func]bool{}
	for _, nm := range []string{"ruleConnsContain", "ruleConnections"} {
		if g := p.Func(core.PkgK8s, "NetworkPolicy", nm); g != nil && core.RecvTypeName(g.Obj.Type().(*types.Signature)) == "NetworkPolicy" {
			portFns[g.Obj] = true
		}
	}
	if len(portFns) < 2 {
		r.Lost(rule, "(*NetworkPolicy).ruleConnsContain / ruleConnections")
		return
	}
	n := 0
	for _, fd := range p.FuncsIn(core.PkgK8s) {
		info := fd.Pkg.TypesInfo
		var portsCalls []*ast.CallExpr
		var selVars []*ast.Ident
		ast.Inspect(fd.Decl.Body, func(nd ast.Node) bool {
			switch x := nd.(type) {
			case *ast.CallExpr:
				if fn := core.Callee(info, x); fn != nil && portFns[fn] && len(x.Args) > 0 {
					if !core.IsNil(info, x.Args[len(x.Args)-1]) { // the exposure pre-scan passes no destination
						portsCalls = append(portsCalls, x)
					}
				}
			case *ast.AssignStmt:
				if len(x.Rhs) == 1 {
					if c, isC := ast.Unparen(x.Rhs[0]).(*ast.CallExpr); isC && core.Callee(info, c) == sel.Obj {
						if id, isId := x.Lhs[0].(*ast.Ident); isId {
							selVars = append(selVars, id)
						}
					}
				}
			}
			return true
		})
		for _, pc := range portsCalls {
			n++
			ok := false
			for _, id := range selVars {
				fm, paths, found := FactsAtWith(fd, pc, nil, []ast.Expr{id})
				if found && len(paths) == 1 && facts.Entails(fm, facts.Atom("b:"+paths[0])) {
					ok = true
				}
			}
			r.Check(ok, rule, fmt.Sprintf("%s: the rule's ports are examined (%s) only after its peers selected the peer", fd.Key(), core.RefName(core.Callee(info, pc))), p.Pos(pc.Pos()), "ruleSelectsPeer answered true on every path to the call",
				"a NetworkPolicy rule's ports are examined before (or regardless of) its peers: the port step converts named ports on the destination and fails for an IP destination, so a rule that does not even select the peer now makes the query fail - eval errors where list, which matches peers first, answers")
		}
	}
	r.RuleCounts[rule] = n
	r.Floor(rule, 2)
}

// IntervalsFromRuntimeBounds is C05-c-range: an interval built from bounds that are not compile-time constants may be
// the empty interval (end < start: a rule with endPort below port, a reversed portRange). CanonicalSet.AddInterval /
// AddHole ignore an empty interval; Interval.ToSet() does not - it yields a set of ONE empty interval, which is not
// IsEmpty() and slips through every "skip the empty port set" guard into the protocol map. So interval.New with
// runtime bounds may only flow into AddInterval / AddHole, never into ToSet().
func IntervalsFromRuntimeBounds(p *core.Program, r *core.Report, rule string) {
	n := 0
	for _, fd := range p.Funcs {
		info := fd.Pkg.TypesInfo
		var stack []ast.Node
		ast.Inspect(fd.Decl.Body, func(nd ast.Node) bool {
			if nd == nil {
				stack = stack[:len(stack)-1]
				return true
			}
			stack = append(stack, nd)
			c, ok := nd.(*ast.CallExpr)
			if !ok || len(c.Args) != 2 {
				return true
			}
			fn := core.Callee(info, c)
			if fn == nil || fn.Pkg() == nil || !strings.HasSuffix(fn.Pkg().Path(), "models/pkg/interval") || fn.Name() != "New" {
				return true
			}
			n++
			constBounds := info.Types[c.Args[0]].Value != nil && info.Types[c.Args[1]].Value != nil
			sameExpr := core.ExprStr(c.Args[0]) == core.ExprStr(c.Args[1]) // [x,x] is never empty
			// the consumer: the call this interval is an argument of, or the method called on it
			use := "?"
			if len(stack) >= 2 {
				switch par := stack[len(stack)-2].(type) {
				case *ast.CallExpr:
					if pfn := core.Callee(info, par); pfn != nil {
						use = pfn.Name()
					}
				case *ast.SelectorExpr:
					use = par.Sel.Name
				}
			}
			ok2 := constBounds || sameExpr || use == "AddInterval" || use == "AddHole"
			r.Check(ok2, rule, fmt.Sprintf("%s: interval.New(%s, %s) with runtime bounds flows only into AddInterval / AddHole", fd.Key(), core.Stable(info, c.Args[0]), core.Stable(info, c.Args[1])), p.Pos(c.Pos()), "consumer: "+use,
				"an interval with runtime bounds is turned into a set by "+use+": for end < start this is a set of one EMPTY interval, which IsEmpty() does not recognise - an empty connection enters the protocol map (listed as a connection with the range 0--1, and Subtract / ContainedIn go wrong on it)")
			return true
		})
	}
	r.RuleCounts[rule] = n
	r.Floor(rule, 3)
}

// EmptinessIgnoresBookkeeping is C11-i: whether a port set is empty depends on the ports it allows (numbered and named),
// never on ExcludedNamedPorts, which only records names removed from an all-ports set and denotes no allowed port.
// (ConnectionSet keeps a protocol entry exactly while its port set is not IsEmpty().)
func EmptinessIgnoresBookkeeping(p *core.Program, r *core.Report, rule string) {
	m := p.Func(core.PkgCommon, "PortSet", "IsEmpty")
	if m == nil {
		r.Lost(rule, "(*PortSet).IsEmpty")
		return
	}
	sums := Effects(p, core.PkgCommon)
	s := sums[m.Obj]
	got := map[string]bool{}
	if s != nil {
		for f := range s.FieldReads[0] {
			got[f] = true
		}
	}
	r.Check(got["Ports"] && got["NamedPorts"] && !got["ExcludedNamedPorts"], rule, m.Key()+": consults Ports and NamedPorts, not the excluded-names bookkeeping", p.Pos(m.Decl.Pos()), "reads "+setNames(got),
		"PortSet.IsEmpty reads "+setNames(got)+": a set that allows nothing but has a recorded excluded name is then not empty, stays in the protocol map as `TCP Empty`, and the connection set is neither empty nor equal to the empty set")
}

// SubtractDeletesByContainment is C11-h: ConnectionSet.Subtract removes a protocol exactly when its port set is
// ContainedIn the operand's (which lets a named port be covered by the full numeric range); "subtract, then drop if
// IsEmpty" is not the same test - PortSet.subtract removes only names listed by name, so {TCP http} minus {TCP 1-65535}
// would keep `TCP http`.
func SubtractDeletesByContainment(p *core.Program, r *core.Report, rule string) {
	fd := p.Func(core.PkgCommon, "ConnectionSet", "Subtract")
	fld := p.Field(core.PkgCommon, "ConnectionSet", "AllowedProtocols")
	if fd == nil || fld == nil {
		r.Lost(rule, "(*ConnectionSet).Subtract / AllowedProtocols")
		return
	}
	info := fd.Pkg.TypesInfo
	w := facts.NewWalker(info)
	n := 0
	w.OnExpr = func(e ast.Expr, f facts.Formula) {
		c, ok := e.(*ast.CallExpr)
		if !ok || !core.IsBuiltinCall(info, c, "delete") || FieldBehind(fd, c.Args[0]) != fld || len(w.Loops) == 0 {
			return
		}
		n++
		okDel := false
		for _, a := range facts.Atoms(f) {
			if strings.HasPrefix(a, "b:") && strings.Contains(a, ".ContainedIn(") && facts.Entails(f, facts.Atom(a)) {
				okDel = true
			}
		}
		r.Check(okDel, rule, fd.Key()+": a protocol is dropped from the difference exactly when its ports are ContainedIn the operand's", p.Pos(c.Pos()), "delete under ports.ContainedIn(otherPorts)",
			"a protocol is dropped from A \\\\ B under "+facts.StripVersions(facts.String(f))+", not under containment of its port set in B's: a named port that B covers by the full numeric range survives the subtraction (A within B, yet A \\\\ B not empty)")
	}
	w.WalkBody(fd.Decl.Body, nil)
	if n == 0 {
		r.Bad(rule, fd.Key()+": a protocol is dropped from the difference exactly when its ports are ContainedIn the operand's", p.Pos(fd.Decl.Pos()), "no removal of a protocol entry inside the per-protocol loop of Subtract")
	}
}

// SomePeerSelects is the existential discipline of rule-peer lists: a rule selects a peer if SOME entry of its from/to
// list does, so a function that walks such a list and answers (bool, error) must not answer `false` (without an error)
// inside the loop - an entry that does not select the peer is skipped (continue), the negative answer is given only
// after the list is exhausted. Applies to every function of package k8s that ranges over a list of NetworkPolicy or
// admin-policy rule peers, whatever it is called (anchored by the type ranged over).
func SomePeerSelects(p *core.Program, r *core.Report, rule string) {
	isPeerList := func(t types.Type) bool {
		if t == nil {
			return false
		}
		sl, ok := t.Underlying().(*types.Slice)
		if !ok {
			return false
		}
		nt := core.NamedOf(sl.Elem())
		if nt == nil {
			return false
		}
		switch nt.Obj().Name() {
		case "NetworkPolicyPeer", "AdminNetworkPolicyEgressPeer", "AdminNetworkPolicyIngressPeer":
			return true
		}
		return false
	}
	n := 0
	for _, fd := range p.FuncsIn(core.PkgK8s) {
		sig := fd.Obj.Type().(*types.Signature)
		if sig.Results().Len() == 0 {
			continue
		}
		if b, ok := sig.Results().At(0).Type().Underlying().(*types.Basic); !ok || b.Info()&types.IsBoolean == 0 {
			continue
		}
		info := fd.Pkg.TypesInfo
		w := facts.NewWalker(info)
		inPeerLoop := func() bool {
			for _, l := range w.Loops {
				if rs, ok := l.(*ast.RangeStmt); ok && isPeerList(info.TypeOf(rs.X)) {
					return true
				}
			}
			return false
		}
		has := false
		bad := ""
		w.OnStmt = func(s ast.Stmt, f facts.Formula) {
			if rs, ok := s.(*ast.RangeStmt); ok && isPeerList(info.TypeOf(rs.X)) {
				has = true
			}
			ret, ok := s.(*ast.ReturnStmt)
			if !ok || w.FuncLitDepth > 0 || !inPeerLoop() || len(ret.Results) == 0 {
				return
			}
			if v, isC := core.ConstString(info, ret.Results[0]); !isC || v != "false" {
				return
			}
			if IsErrorReturn(p, w, fd.Obj, ret, f) {
				return
			}
			if bad == "" {
				bad = p.Pos(ret.Pos()) + " under " + facts.StripVersions(facts.String(f))
			}
		}
		w.WalkBody(fd.Decl.Body, nil)
		if !has {
			continue
		}
		n++
		r.Check(bad == "", rule, fd.Key()+": no negative answer before the list of rule peers is exhausted", p.Pos(fd.Decl.Pos()), "inside the loop: continue, a positive answer, or an error",
			"`return false` inside the loop over the rule's peers ("+bad+"): the remaining entries of the from/to list are never compared, so a peer (or the representative peer generated from a later entry) that one of them selects is not selected by the rule - its connections, or its exposure line, are missing")
	}
	r.RuleCounts[rule] = n
	r.Floor(rule, 3)
}
