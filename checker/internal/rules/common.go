// Package rules holds the analysis engines (E1..E9 of DESIGN.md).
package rules

import (
	"go/ast"
	"go/token"
	"go/types"
	"strings"

	"npverif/internal/core"
	"npverif/internal/facts"
)

// alwaysErrFuncs memoises "every return of this function yields a non-nil error".
var alwaysErrMemo = map[*types.Func]int{} // 0 unknown, 1 in progress, 2 yes, 3 no

// ResetMemo clears per-program memo tables (a process may load several programs).
func ResetMemo() {
	alwaysErrMemo = map[*types.Func]int{}
}

// AlwaysReturnsError reports whether the (module or well-known library)
// function returns a non-nil error (as its last result) on every path.
func AlwaysReturnsError(p *core.Program, fn *types.Func) bool {
	if fn == nil || fn.Pkg() == nil {
		return false
	}
	switch fn.Pkg().Path() + "." + core.RefName(fn) {
	case "errors.New", "fmt.Errorf", "k8s.io/apimachinery/pkg/util/errors.NewAggregate":
		return true
	}
	fd := p.ByObj[fn]
	if fd == nil {
		return false
	}
	switch alwaysErrMemo[fn] {
	case 1, 3:
		return false
	case 2:
		return true
	}
	alwaysErrMemo[fn] = 1
	sig := fn.Type().(*types.Signature)
	res := sig.Results()
	if res.Len() == 0 || !core.IsErrorType(res.At(res.Len()-1).Type()) {
		alwaysErrMemo[fn] = 3
		return false
	}
	ok := true
	n := 0
	w := facts.NewWalker(fd.Pkg.TypesInfo)
	w.OnStmt = func(s ast.Stmt, f facts.Formula) {
		ret, isRet := s.(*ast.ReturnStmt)
		if !isRet || w.FuncLitDepth > 0 {
			return
		}
		n++
		if len(ret.Results) != res.Len() {
			ok = false
			return
		}
		last := ret.Results[len(ret.Results)-1]
		if !NonNilError(p, w, last, f) {
			if id, isId := ast.Unparen(last).(*ast.Ident); !isId || !DefinedByErrorCtor(p, fd, id) {
				ok = false
			}
		}
	}
	w.WalkBody(fd.Decl.Body, nil)
	if n == 0 {
		ok = false
	}
	if ok {
		alwaysErrMemo[fn] = 2
	} else {
		alwaysErrMemo[fn] = 3
	}
	return ok
}

func hasFuncLitReturn(body *ast.BlockStmt) bool {
	found := false
	ast.Inspect(body, func(n ast.Node) bool {
		if fl, ok := n.(*ast.FuncLit); ok {
			ast.Inspect(fl.Body, func(m ast.Node) bool {
				if _, ok := m.(*ast.ReturnStmt); ok {
					found = true
				}
				return true
			})
			return false
		}
		return true
	})
	return found
}

// NonNilError reports whether expression e (of type error) is certainly
// non-nil under facts f: a constructor call, or a value the facts say is
// non-nil.
func NonNilError(p *core.Program, w *facts.Walker, e ast.Expr, f facts.Formula) bool {
	e = ast.Unparen(e)
	if core.IsNil(w.Info, e) {
		return false
	}
	if call, ok := e.(*ast.CallExpr); ok {
		return AlwaysReturnsError(p, core.Callee(w.Info, call))
	}
	if facts.Entails(f, facts.Not{X: facts.Atom("nil:" + w.Path(e))}) {
		return true
	}
	return false
}

// DefinedByErrorCtor: id is a local with a single definition `id := <call that always returns an error>`.
func DefinedByErrorCtor(p *core.Program, fd *core.FuncDecl, id *ast.Ident) bool {
	info := fd.Pkg.TypesInfo
	o := info.ObjectOf(id)
	n, ok := 0, false
	ast.Inspect(fd.Decl.Body, func(nd ast.Node) bool {
		if as, isAs := nd.(*ast.AssignStmt); isAs {
			for i, l := range as.Lhs {
				if lid, isID := l.(*ast.Ident); isID && info.ObjectOf(lid) == o {
					n++
					if len(as.Rhs) == len(as.Lhs) {
						if c, isCall := ast.Unparen(as.Rhs[i]).(*ast.CallExpr); isCall && AlwaysReturnsError(p, core.Callee(info, c)) {
							ok = true
						}
					}
				}
			}
		}
		return true
	})
	return n == 1 && ok
}

// IsErrorReturn reports whether ret certainly returns a non-nil error (last result).
func IsErrorReturn(p *core.Program, w *facts.Walker, fn *types.Func, ret *ast.ReturnStmt, f facts.Formula) bool {
	if ret == nil {
		return false
	}
	sig := fn.Type().(*types.Signature)
	res := sig.Results()
	if res.Len() == 0 || !core.IsErrorType(res.At(res.Len()-1).Type()) {
		return false
	}
	if len(ret.Results) == 0 {
		// named results: the error result variable
		v := res.At(res.Len() - 1)
		if core.RefName(v) == "" {
			return false
		}
		return facts.Entails(f, facts.Not{X: facts.Atom("nil:" + w.PathOfVar(v))})
	}
	if len(ret.Results) == 1 && res.Len() > 1 {
		// return f() forwarding several results
		if call, ok := ast.Unparen(ret.Results[0]).(*ast.CallExpr); ok {
			return AlwaysReturnsError(p, core.Callee(w.Info, call))
		}
		return false
	}
	last := ret.Results[len(ret.Results)-1]
	if NonNilError(p, w, last, f) {
		return true
	}
	if id, ok := ast.Unparen(last).(*ast.Ident); ok {
		if fd := p.ByObj[fn]; fd != nil && DefinedByErrorCtor(p, fd, id) {
			return true
		}
	}
	return false
}

// Unfold renders an expression with every local that has exactly ONE definition in scope (a function body or function
// literal and its enclosing function) replaced by that definition, recursively: with `anps := pe.sorted` and
// `a, b := anps[i], anps[j]`, the expression `a.Spec.Priority` unfolds to `pe.sorted[i].Spec.Priority`. Rules that
// look for the origin of a value use it so that introducing (or removing) a local for a repeated expression does not
// change what they see. Parameters and multiply-assigned variables stay as they are.
func Unfold(info *types.Info, scope ast.Node, e ast.Expr) string {
	defs := map[types.Object][]ast.Expr{}
	ast.Inspect(scope, func(n ast.Node) bool {
		switch x := n.(type) {
		case *ast.AssignStmt:
			for i, l := range x.Lhs {
				id, ok := l.(*ast.Ident)
				if !ok || id.Name == "_" {
					continue
				}
				o := info.ObjectOf(id)
				if o == nil {
					continue
				}
				switch {
				case len(x.Rhs) == len(x.Lhs):
					defs[o] = append(defs[o], x.Rhs[i])
				default:
					defs[o] = append(defs[o], nil) // tuple result: not unfolded
				}
			}
		case *ast.RangeStmt:
			for _, l := range []ast.Expr{x.Key, x.Value} {
				if id, ok := l.(*ast.Ident); ok {
					if o := info.ObjectOf(id); o != nil {
						defs[o] = append(defs[o], nil)
					}
				}
			}
		case *ast.IncDecStmt:
			if id, ok := x.X.(*ast.Ident); ok {
				if o := info.ObjectOf(id); o != nil {
					defs[o] = append(defs[o], nil)
				}
			}
		}
		return true
	})
	var rec func(e ast.Expr, depth int) string
	rec = func(e ast.Expr, depth int) string {
		switch x := e.(type) {
		case nil:
			return ""
		case *ast.ParenExpr:
			return "(" + rec(x.X, depth) + ")"
		case *ast.Ident:
			if o := info.ObjectOf(x); o != nil && depth < 4 {
				if ds := defs[o]; len(ds) == 1 && ds[0] != nil {
					d := ast.Unparen(ds[0])
					switch d.(type) {
					case *ast.Ident, *ast.SelectorExpr, *ast.IndexExpr, *ast.CallExpr, *ast.BasicLit, *ast.StarExpr, *ast.TypeAssertExpr:
						return rec(d, depth+1)
					default:
						return "(" + rec(d, depth+1) + ")"
					}
				}
			}
			return x.Name
		case *ast.SelectorExpr:
			return rec(x.X, depth) + "." + x.Sel.Name
		case *ast.IndexExpr:
			return rec(x.X, depth) + "[" + rec(x.Index, depth) + "]"
		case *ast.StarExpr:
			return "*" + rec(x.X, depth)
		case *ast.UnaryExpr:
			return x.Op.String() + rec(x.X, depth)
		case *ast.BinaryExpr:
			return rec(x.X, depth) + " " + x.Op.String() + " " + rec(x.Y, depth)
		case *ast.CallExpr:
			var as []string
			for _, a := range x.Args {
				as = append(as, rec(a, depth))
			}
			return rec(x.Fun, depth) + "(" + strings.Join(as, ", ") + ")"
		case *ast.TypeAssertExpr:
			return rec(x.X, depth) + ".(" + core.ExprStr(x.Type) + ")"
		}
		return core.ExprStr(e)
	}
	return rec(e, 0)
}

// FieldBehind resolves e to a struct field: directly (x.f), or through a local alias with a single definition
// (`a := x.f` ... a). A slice alias shares its backing array, so an in-place operation on the alias is an operation
// on the field.
func FieldBehind(fd *core.FuncDecl, e ast.Expr) *types.Var {
	info := fd.Pkg.TypesInfo
	for depth := 0; depth < 3; depth++ {
		if f := core.FieldOf(info, e); f != nil {
			return f
		}
		id, ok := ast.Unparen(e).(*ast.Ident)
		if !ok {
			return nil
		}
		d, _ := defOf(fd, id)
		if d == nil {
			return nil
		}
		// single definition only
		n := 0
		o := info.ObjectOf(id)
		ast.Inspect(fd.Decl.Body, func(nd ast.Node) bool {
			if as, isAs := nd.(*ast.AssignStmt); isAs {
				for _, l := range as.Lhs {
					if lid, isID := l.(*ast.Ident); isID && info.ObjectOf(lid) == o {
						n++
					}
				}
			}
			return true
		})
		if n != 1 {
			return nil
		}
		e = d
	}
	return nil
}

// LastReturn: the return statement that ends a block (statements before it are allowed), or nil.
func LastReturn(b *ast.BlockStmt) *ast.ReturnStmt {
	if b == nil || len(b.List) == 0 {
		return nil
	}
	ret, _ := b.List[len(b.List)-1].(*ast.ReturnStmt)
	return ret
}

// StableResult renders a returned expression for a construct: a local that has a single definition from a call is
// named after the callee ("result of F"), anything else is rendered by core.Stable. Renaming the local does not change
// the text, and two locals of the same type with different origins stay apart.
func StableResult(fd *core.FuncDecl, e ast.Expr) string {
	info := fd.Pkg.TypesInfo
	if id, ok := ast.Unparen(e).(*ast.Ident); ok {
		if v, isV := info.ObjectOf(id).(*types.Var); isV && !v.IsField() && v.Pkg() != nil && v.Parent() != v.Pkg().Scope() {
			var defs []ast.Expr
			ast.Inspect(fd.Decl.Body, func(n ast.Node) bool {
				as, isAs := n.(*ast.AssignStmt)
				if !isAs {
					return true
				}
				for i, l := range as.Lhs {
					if lid, isID := l.(*ast.Ident); isID && info.ObjectOf(lid) == v {
						if len(as.Rhs) == len(as.Lhs) {
							defs = append(defs, as.Rhs[i])
						} else if len(as.Rhs) == 1 {
							defs = append(defs, as.Rhs[0])
						}
					}
				}
				return true
			})
			if len(defs) == 1 {
				if c, isC := ast.Unparen(defs[0]).(*ast.CallExpr); isC {
					if fn := core.Callee(info, c); fn != nil {
						return "‹result of " + core.RefName(fn) + "›"
					}
				}
			}
		}
	}
	return core.Stable(info, e)
}

// ---------------------------------------------------------------- dominance helpers

// Dominated reports, for one node `target` of fd, whether every path from the
// function entry to the node passes an event accepted by prior (a call
// expression or an assignment), and returns the facts known at the node.
func Dominated(fd *core.FuncDecl, target ast.Node, prior func(n ast.Node) bool) (dominated bool, at facts.Formula, found bool) {
	w := facts.NewWalker(fd.Pkg.TypesInfo)
	w.Transfer = func(st int, n ast.Node, f facts.Formula) int {
		if n != target && prior(n) {
			return 1
		}
		return st
	}
	w.AtNode = func(n ast.Node, states uint64, f facts.Formula) {
		if n == target {
			found = true
			dominated = states == 2 // only state 1 reaches the node
			at = f
		}
	}
	w.WalkBody(fd.Decl.Body, nil)
	return
}

// FactsAt returns the path condition at a call/assignment/return node of fd,
// with an optional rule-specific atomizer.
func FactsAt(fd *core.FuncDecl, target ast.Node, atomize func(w *facts.Walker, e ast.Expr) facts.Formula) (fm facts.Formula, w *facts.Walker, found bool) {
	w = facts.NewWalker(fd.Pkg.TypesInfo)
	w.Atomize = atomize
	w.AtNode = func(n ast.Node, states uint64, f facts.Formula) {
		if n == target {
			fm, found = f, true
		}
	}
	w.OnExpr = func(e ast.Expr, f facts.Formula) {
		if ast.Node(e) == target && !found {
			fm, found = f, true
		}
	}
	w.OnStmt = func(s ast.Stmt, f facts.Formula) {
		if ast.Node(s) == target && !found {
			fm, found = f, true
		}
	}
	w.WalkBody(fd.Decl.Body, nil)
	return
}

// FactsAtWith is FactsAt that also renders the given expressions as canonical
// paths at the target node (variable versions as they are there).
func FactsAtWith(fd *core.FuncDecl, target ast.Node, atomize func(w *facts.Walker, e ast.Expr) facts.Formula, exprs []ast.Expr) (fm facts.Formula, paths []string, found bool) {
	w := facts.NewWalker(fd.Pkg.TypesInfo)
	w.Atomize = atomize
	grab := func(f facts.Formula) {
		fm, found = f, true
		paths = nil
		for _, e := range exprs {
			paths = append(paths, w.Path(e))
		}
	}
	w.AtNode = func(n ast.Node, states uint64, f facts.Formula) {
		if n == target && !found {
			grab(f)
		}
	}
	w.OnExpr = func(e ast.Expr, f facts.Formula) {
		if ast.Node(e) == target && !found {
			grab(f)
		}
	}
	w.OnStmt = func(s ast.Stmt, f facts.Formula) {
		if ast.Node(s) == target && !found {
			grab(f)
		}
	}
	w.WalkBody(fd.Decl.Body, nil)
	return
}

// PostDominated reports whether every path from node `from` to a normal
// return of fd passes an event accepted by later.
func PostDominated(p *core.Program, fd *core.FuncDecl, from ast.Node, later func(n ast.Node) bool) (ok bool, witness string) {
	w := facts.NewWalker(fd.Pkg.TypesInfo)
	ok = true
	w.Transfer = func(st int, n ast.Node, f facts.Formula) int {
		if n == from {
			return 1
		}
		if st == 1 && later(n) {
			return 2
		}
		return st
	}
	w.OnExit = func(st int, ret *ast.ReturnStmt, f facts.Formula) {
		if st == 1 && !IsErrorReturn(p, w, fd.Obj, ret, f) {
			ok = false
			if witness == "" {
				if ret != nil {
					witness = p.Pos(ret.Pos())
				} else {
					witness = p.Pos(fd.Decl.End())
				}
			}
		}
	}
	w.WalkBody(fd.Decl.Body, nil)
	return
}

// CallsTo lists the call sites of one function in production code.
func CallsTo(p *core.Program, target *types.Func) []core.CallSite {
	return p.CallSites(func(fn *types.Func) bool {
		if fn == target {
			return true
		}
		for _, g := range p.Impls(fn) {
			if g == target {
				return true
			}
		}
		return false
	})
}

// SiteOwners names the reference function(s) a site found in fd is attributed to when findings are keyed by function:
// fd itself; for a function the reference tree does not have (a helper extracted since) its single caller; and for a
// function that absorbed reference functions which are gone (inlined into it, their only caller) those functions.
// A finding recorded against a function therefore follows its code through an extract-helper or inline refactoring.
func SiteOwners(p *core.Program, fd *core.FuncDecl) []string {
	cur := fd
	for depth := 0; depth < 3 && !p.RefHasFunc(cur.Key()); depth++ {
		var callers []*core.FuncDecl
		for _, g := range p.Funcs {
			if g == cur {
				continue
			}
			for _, callee := range p.CalleesOf(g) {
				if callee == cur.Obj {
					callers = append(callers, g)
					break
				}
			}
		}
		if len(callers) != 1 {
			break
		}
		cur = callers[0]
	}
	if gone := p.VanishedInto(cur.Key()); len(gone) > 0 && cur == fd {
		return gone
	}
	return []string{cur.Key()}
}

// ResolveLocal follows a local that is assigned exactly once in scope (by `x := e`, `var x T = e`, or one `x = e`) to the
// expression it names, repeatedly (at most four steps); parameters, range variables, multiply-assigned locals and
// tuple-assigned locals stay as they are. Rules that look at "the argument" or "the returned value" use it, so that naming
// a sub-expression first does not change what they see.
func ResolveLocal(info *types.Info, scope ast.Node, e ast.Expr) ast.Expr {
	for depth := 0; depth < 4; depth++ {
		id, ok := ast.Unparen(e).(*ast.Ident)
		if !ok {
			return e
		}
		o, isVar := info.ObjectOf(id).(*types.Var)
		if !isVar || o.IsField() || o.Pkg() == nil || o.Parent() == o.Pkg().Scope() {
			return e
		}
		var def ast.Expr
		n, bad := 0, false
		ast.Inspect(scope, func(m ast.Node) bool {
			switch x := m.(type) {
			case *ast.AssignStmt:
				for i, l := range x.Lhs {
					if lid, ok := ast.Unparen(l).(*ast.Ident); ok && info.ObjectOf(lid) == o {
						n++
						if len(x.Lhs) == len(x.Rhs) && (x.Tok == token.DEFINE || x.Tok == token.ASSIGN) {
							def = x.Rhs[i]
						} else {
							bad = true
						}
					}
				}
			case *ast.ValueSpec:
				for i, nm := range x.Names {
					if info.ObjectOf(nm) == o {
						if len(x.Values) == len(x.Names) {
							n++
							def = x.Values[i]
						} else {
							// declared without a value (or from a tuple): a later assignment may be conditional, the local is
							// then not a name for that one expression
							bad = true
						}
					}
				}
			case *ast.RangeStmt:
				for _, l := range []ast.Expr{x.Key, x.Value} {
					if lid, ok := l.(*ast.Ident); ok && info.ObjectOf(lid) == o {
						bad = true
					}
				}
			case *ast.IncDecStmt:
				if lid, ok := ast.Unparen(x.X).(*ast.Ident); ok && info.ObjectOf(lid) == o {
					bad = true
				}
			case *ast.UnaryExpr:
				if lid, ok := ast.Unparen(x.X).(*ast.Ident); ok && x.Op == token.AND && info.ObjectOf(lid) == o {
					bad = true
				}
			}
			return true
		})
		if bad || n != 1 || def == nil {
			return e
		}
		e = def
	}
	return e
}

// FieldWrite is one place where a struct field receives a value: `x.F = v` or the element `F: v` of a composite literal.
type FieldWrite struct {
	Field *types.Var
	Owner string // name of the struct type that declares the field ("" when unknown)
	Value ast.Expr
	At    ast.Node // the assignment, or the key-value element
}

// FieldWrites lists the field writes in body, in both spellings, so that `p.Owner.Name = r.Name` and
// `p.Owner = Owner{Name: r.Name}` are the same event for a rule.
func FieldWrites(info *types.Info, body ast.Node) []FieldWrite {
	var out []FieldWrite
	ownerOf := func(t types.Type) string {
		if t == nil {
			return ""
		}
		if pt, ok := t.Underlying().(*types.Pointer); ok {
			t = pt.Elem()
		}
		if nt := core.NamedOf(t); nt != nil {
			return nt.Obj().Name()
		}
		return ""
	}
	ast.Inspect(body, func(n ast.Node) bool {
		switch x := n.(type) {
		case *ast.AssignStmt:
			if len(x.Lhs) != len(x.Rhs) {
				return true
			}
			for i, l := range x.Lhs {
				se, ok := ast.Unparen(l).(*ast.SelectorExpr)
				if !ok {
					continue
				}
				if f := core.FieldOf(info, se); f != nil {
					out = append(out, FieldWrite{Field: f, Owner: ownerOf(info.TypeOf(se.X)), Value: x.Rhs[i], At: x})
				}
			}
		case *ast.CompositeLit:
			owner := ownerOf(info.TypeOf(x))
			for _, el := range x.Elts {
				kv, ok := el.(*ast.KeyValueExpr)
				if !ok {
					continue
				}
				id, ok := kv.Key.(*ast.Ident)
				if !ok {
					continue
				}
				if f, isVar := info.ObjectOf(id).(*types.Var); isVar && f.IsField() {
					out = append(out, FieldWrite{Field: f, Owner: owner, Value: kv.Value, At: kv})
				}
			}
		}
		return true
	})
	return out
}

// UnfoldingEqAtomizer names the atoms of `X == <constant>` / `X != <constant>` by X with every single-assignment local
// replaced by the expression it names (Unfold), so that `p := x.Pod(); if p.Owner.Name != ""` gives the same atom as
// `if x.Pod().Owner.Name != ""`. Other conditions keep the walker's default atoms.
func UnfoldingEqAtomizer(info *types.Info, scope ast.Node) func(w *facts.Walker, e ast.Expr) facts.Formula {
	return func(w *facts.Walker, e ast.Expr) facts.Formula {
		be, ok := e.(*ast.BinaryExpr)
		if !ok || (be.Op != token.EQL && be.Op != token.NEQ) {
			return nil
		}
		x, y := ast.Unparen(be.X), ast.Unparen(be.Y)
		tv, isConst := info.Types[y]
		if !isConst || tv.Value == nil {
			x, y = y, x
			tv, isConst = info.Types[y]
			if !isConst || tv.Value == nil {
				return nil
			}
		}
		u := Unfold(info, scope, x)
		if u == core.ExprStr(x) {
			return nil
		}
		at := facts.Formula(facts.Atom("eq:" + u + "==" + tv.Value.ExactString()))
		if be.Op == token.NEQ {
			return facts.MkNot(at)
		}
		return at
	}
}
