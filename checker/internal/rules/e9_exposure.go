package rules

import (
	"fmt"
	"go/ast"
	"go/token"
	"go/types"
	"strings"

	"npverif/internal/core"
	"npverif/internal/facts"
)

// PeerTypeAtomizer recognises X.PeerType() == IPBlockType / PodType and
// X.IsPeerIPType() as the atom isIP:<X>.
func PeerTypeAtomizer(info *types.Info) func(w *facts.Walker, e ast.Expr) facts.Formula {
	return func(w *facts.Walker, e ast.Expr) facts.Formula {
		if be, ok := e.(*ast.BinaryExpr); ok && (be.Op == token.EQL || be.Op == token.NEQ) {
			l, r := ast.Unparen(be.X), ast.Unparen(be.Y)
			isPT := func(x ast.Expr) (*ast.CallExpr, bool) {
				c, ok := x.(*ast.CallExpr)
				if !ok {
					return nil, false
				}
				se, ok := c.Fun.(*ast.SelectorExpr)
				return c, ok && se.Sel.Name == "PeerType" && len(c.Args) == 0
			}
			c, ok := isPT(l)
			if !ok {
				l, r = r, l
				c, ok = isPT(l)
			}
			if ok {
				recv := c.Fun.(*ast.SelectorExpr).X
				var at facts.Formula
				switch constName(info, r) {
				case "IPBlockType":
					at = facts.Atom("isIP:" + w.Path(recv))
				case "PodType":
					at = facts.Not{X: facts.Atom("isIP:" + w.Path(recv))}
				}
				if at != nil {
					if be.Op == token.NEQ {
						return facts.MkNot(at)
					}
					return at
				}
			}
		}
		if c, ok := e.(*ast.CallExpr); ok {
			if se, ok := c.Fun.(*ast.SelectorExpr); ok && se.Sel.Name == "IsPeerIPType" && len(c.Args) == 0 {
				return facts.Atom("isIP:" + w.Path(se.X))
			}
		}
		return nil
	}
}

// QueryRoles runs the endpoint-role inference from the query entries.
func QueryRoles(p *core.Program) *roleAnalysis {
	entries := map[*types.Func][2]int{}
	for _, n := range []string{"CheckIfAllowed", "AllAllowedConnectionsBetweenWorkloadPeers", "allAllowedConnections", "checkIfAllowedNew"} {
		if fd := p.Func(core.PkgEval, "PolicyEngine", n); fd != nil {
			entries[fd.Obj] = [2]int{0, 1}
		}
	}
	a := &roleAnalysis{p: p}
	a.run(entries)
	return a
}

// ExposureShortcut is C06-b.
func ExposureShortcut(p *core.Program, r *core.Report, rule string) {
	fd := p.Func(core.PkgEval, "PolicyEngine", "determineAllowedConnsPerDirection")
	if fd == nil {
		r.Lost(rule, "(*PolicyEngine).determineAllowedConnsPerDirection")
		return
	}
	info := fd.Pkg.TypesInfo
	roles := QueryRoles(p)
	sig := fd.Obj.Type().(*types.Signature)
	var srcP, dstP, ingP *types.Var
	for i := 0; i < sig.Params().Len(); i++ {
		v := sig.Params().At(i)
		switch {
		case roles.roles[v] == RoleSrc:
			srcP = v
		case roles.roles[v] == RoleDst:
			dstP = v
		}
		if b, ok := v.Type().Underlying().(*types.Basic); ok && b.Kind() == types.Bool {
			ingP = v
		}
	}
	if srcP == nil || dstP == nil || ingP == nil {
		r.Add(rule, fd.Key()+": source, destination and direction parameters", p.Pos(fd.Decl.Pos()), core.Undecided, "role inference did not yield one source, one destination and one direction parameter")
		return
	}
	w := facts.NewWalker(info)
	w.Atomize = PeerTypeAtomizer(info)
	n := 0
	w.OnStmt = func(s ast.Stmt, f facts.Formula) {
		ret, ok := s.(*ast.ReturnStmt)
		if !ok || len(ret.Results) == 0 {
			return
		}
		se, ok := ast.Unparen(ret.Results[0]).(*ast.SelectorExpr)
		if !ok {
			return
		}
		fld := core.FieldOf(info, se)
		if fld == nil || !core.TypeIs(fld.Type(), core.PkgCommon, "ConnectionSet") {
			return
		}
		n++
		path := w.Path(se)
		c := fmt.Sprintf("%s: shortcut return of the stored %s #%d", fd.Key(), core.RefName(fld), n)
		if !facts.Entails(f, facts.Atom("b:"+path+".AllowAll")) {
			r.Bad(rule, c, p.Pos(ret.Pos()), "a stored exposure set is returned instead of walking the rules without the test that it is the full set (AllowAll of the same field): the shortcut may differ from the rule walk, which is bounded by 'all'")
			return
		}
		// direction consistency: Ingress* fields under isIngress, Egress* under !isIngress
		ing := facts.Atom("b:" + w.PathOfVar(ingP))
		owner := core.ExprStr(se.X)
		dirOK := true
		switch {
		case strings.Contains(owner, "Ingress"):
			dirOK = facts.Entails(f, ing)
		case strings.Contains(owner, "Egress"):
			dirOK = facts.Entails(f, facts.Not{X: ing})
		}
		if !dirOK {
			r.Bad(rule, c, p.Pos(ret.Pos()), "the "+owner+" data is returned for the other direction")
			return
		}
		if core.RefName(fld) == "ClusterWideExposure" {
			// the other end must be a pod: source on ingress, destination on egress
			var other *types.Var
			switch {
			case facts.Entails(f, ing):
				other = srcP
			case facts.Entails(f, facts.Not{X: ing}):
				other = dstP
			}
			if other == nil || !facts.Entails(f, facts.Not{X: facts.Atom("isIP:" + w.PathOfVar(other))}) {
				r.Bad(rule, c, p.Pos(ret.Pos()), "the cluster-wide (all namespaces) shortcut applies only when the other end - the source on ingress, the destination on egress - is a pod; here that end may be an IP block (path condition: "+facts.StripVersions(facts.String(f))+")")
				return
			}
		}
		r.OK(rule, c, p.Pos(ret.Pos()), "under AllowAll of the same field, for its own direction"+map[bool]string{true: ", other end is a pod", false: ""}[core.RefName(fld) == "ClusterWideExposure"])
	}
	w.WalkBody(fd.Decl.Body, nil)
	r.Floor(rule, 4)
}

// ProtectionFlag is C06-c.
func ProtectionFlag(p *core.Program, r *core.Report, rule string) {
	fld := p.Field(core.PkgK8s, "PodExposureInfo", "IsProtected")
	setter := p.Func(core.PkgK8s, "Pod", "UpdatePodXgressProtectedFlag")
	if fld == nil || setter == nil {
		r.Lost(rule, "PodExposureInfo.IsProtected / (*Pod).UpdatePodXgressProtectedFlag")
		return
	}
	// who-may-write
	for _, fd := range p.Funcs {
		info := fd.Pkg.TypesInfo
		ast.Inspect(fd.Decl.Body, func(n ast.Node) bool {
			if as, ok := n.(*ast.AssignStmt); ok {
				for i, l := range as.Lhs {
					if core.FieldOf(info, l) == fld {
						v := ""
						if i < len(as.Rhs) {
							v, _ = core.ConstString(info, as.Rhs[i])
						}
						r.Check(fd.Obj == setter.Obj && v == "true", rule, fd.Key()+": writes IsProtected", p.Pos(as.Pos()), "the designated setter, constant true",
							"the protected flag is written outside UpdatePodXgressProtectedFlag (or with a non-constant value): 'not protected' must mean exactly 'no policy governs the pod in that direction'")
					}
				}
			}
			return true
		})
	}
	// direction consistency inside the setter: Ingress data under isIngress
	{
		info := setter.Pkg.TypesInfo
		sig := setter.Obj.Type().(*types.Signature)
		w := facts.NewWalker(info)
		w.OnStmt = func(s ast.Stmt, f facts.Formula) {
			as, ok := s.(*ast.AssignStmt)
			if !ok || len(as.Lhs) != 1 || core.FieldOf(info, as.Lhs[0]) != fld {
				return
			}
			ing := facts.Atom("b:" + w.PathOfVar(sig.Params().At(0)))
			l := core.ExprStr(as.Lhs[0])
			ok2 := (strings.Contains(l, "Ingress") && facts.Entails(f, ing)) || (strings.Contains(l, "Egress") && facts.Entails(f, facts.Not{X: ing}))
			r.Check(ok2, rule, setter.Key()+": "+l+" is set for its own direction", p.Pos(as.Pos()), "ingress data under isIngress, egress data otherwise", "the protected flag of the other direction is set")
		}
		w.WalkBody(setter.Decl.Body, nil)
	}
	// who-may-call, and under which condition
	sites := CallsTo(p, setter.Obj)
	for _, cs := range sites {
		info := cs.In.Pkg.TypesInfo
		fm, _, found := FactsAt(cs.In, cs.Call, nil)
		okSite := core.RefName(cs.In.Obj) == "getPoliciesSelectingPod" && found
		nonEmpty := false
		if found {
			bg := facts.MkAnd(fm, facts.LenImplications(fm))
			for _, a := range facts.Atoms(bg) {
				if strings.HasPrefix(a, "empty:") && facts.Entails(bg, facts.Not{X: facts.Atom(a)}) {
					nonEmpty = true
				}
			}
		}
		// argument: direction == Ingress
		argOK := false
		if len(cs.Call.Args) == 1 {
			if be, ok := ast.Unparen(cs.Call.Args[0]).(*ast.BinaryExpr); ok && be.Op == token.EQL {
				if constName(info, be.Y) == "PolicyTypeIngress" || constName(info, be.X) == "PolicyTypeIngress" {
					argOK = true
				}
			}
		}
		r.Check(okSite && nonEmpty && argOK, rule, cs.In.Key()+": marks the pod protected only when policies select it in the queried direction", p.Pos(cs.Call.Pos()),
			"called in getPoliciesSelectingPod under a non-empty selection, with isIngress = (direction == Ingress)",
			"the protected flag is set where the selection of policies may be empty, or for a direction other than the queried one")
	}
	r.Floor(rule, 4)
}

// ExposureFlagNonInterference is C06-d.
func ExposureFlagNonInterference(p *core.Program, r *core.Report, rule string) {
	flag := p.Field(core.PkgEval, "PolicyEngine", "exposureAnalysisFlag")
	if flag == nil {
		r.Lost(rule, "PolicyEngine.exposureAnalysisFlag")
		return
	}
	// on query paths the flag only guards side-effect calls (it never changes what is returned)
	roots := QueryEntries(p)
	for fn := range p.Reachable(roots...) {
		fd := p.ByObj[fn]
		if fd == nil {
			continue
		}
		info := fd.Pkg.TypesInfo
		ast.Inspect(fd.Decl.Body, func(n ast.Node) bool {
			ifs, ok := n.(*ast.IfStmt)
			if !ok {
				return true
			}
			mentions := false
			ast.Inspect(ifs.Cond, func(m ast.Node) bool {
				if se, ok := m.(*ast.SelectorExpr); ok && core.FieldOf(info, se) == flag {
					mentions = true
				}
				return true
			})
			if !mentions {
				return true
			}
			// body: only expression statements (side-effect calls), no return/assignment to results, no else
			pure := ifs.Else == nil
			for _, st := range ifs.Body.List {
				if as, isAs := st.(*ast.AssignStmt); isAs {
					// an assignment to the blank identifier changes nothing
					blank := true
					for _, l := range as.Lhs {
						if id, isID := l.(*ast.Ident); !isID || id.Name != "_" {
							blank = false
						}
					}
					if blank {
						continue
					}
				}
				if _, ok := st.(*ast.ExprStmt); !ok {
					pure = false
				}
			}
			r.Check(pure, rule, fd.Key()+": the exposure flag only guards a side-effect call", p.Pos(ifs.Pos()), "the guarded block consists of calls only (no return, no assignment, no else)",
				"a branch on the exposure flag returns or assigns on a query path: the base connectivity may differ with and without --exposure")
			return true
		})
	}
	r.Floor(rule, 2)
	// other reads of the flag on query paths (not in an if condition)
	// representative peers never enter GetPeersList
	rep := p.Field(core.PkgEval, "PolicyEngine", "representativePeersMap")
	if gp := p.Func(core.PkgEval, "PolicyEngine", "GetPeersList"); gp != nil && rep != nil {
		bad := ""
		for fn := range p.Reachable(gp.Obj) {
			fd := p.ByObj[fn]
			if fd == nil {
				continue
			}
			ast.Inspect(fd.Decl.Body, func(n ast.Node) bool {
				if se, ok := n.(*ast.SelectorExpr); ok && core.FieldOf(fd.Pkg.TypesInfo, se) == rep && bad == "" {
					bad = fd.Key() + " at " + p.Pos(se.Pos())
				}
				return true
			})
		}
		r.Check(bad == "", rule, "GetPeersList never reads the representative peers", p.Pos(gp.Decl.Pos()), "who-may-read over the functions reachable from GetPeersList", "representative (hypothetical) peers can enter the list of real peers: "+bad)
	}
	// loops that fold exposure data into long-lived state have no early exit but errors
	for _, name := range []string{"getAllAllowedXgressConnsFromNetpols"} {
		fd := p.Func(core.PkgEval, "PolicyEngine", name)
		if fd == nil {
			r.Lost(rule, name)
			continue
		}
		info := fd.Pkg.TypesInfo
		w := facts.NewWalker(info)
		bad := ""
		inFoldLoop := func() bool {
			for _, l := range w.Loops {
				has := false
				ast.Inspect(l, func(n ast.Node) bool {
					if c, ok := n.(*ast.CallExpr); ok {
						if fn := core.Callee(info, c); fn != nil && core.RefName(fn) == "updatePeerXgressClusterWideExposure" {
							has = true
						}
					}
					return true
				})
				if has {
					return true
				}
			}
			return false
		}
		w.OnStmt = func(s ast.Stmt, f facts.Formula) {
			if !inFoldLoop() || bad != "" {
				return
			}
			switch x := s.(type) {
			case *ast.ReturnStmt:
				if !IsErrorReturn(p, w, fd.Obj, x, f) {
					bad = "return at " + p.Pos(x.Pos())
				}
			case *ast.BranchStmt:
				if x.Tok == token.BREAK {
					bad = "break at " + p.Pos(x.Pos())
				}
			}
		}
		w.WalkBody(fd.Decl.Body, nil)
		r.Check(bad == "", rule, fd.Key()+": the loop that folds the policies' cluster-wide exposure into the pod visits every selecting policy", p.Pos(fd.Decl.Pos()),
			"no early exit other than errors", "the loop over the selecting policies also accumulates exposure data on the pod, but can be left early ("+bad+"): which policies are folded then depends on map iteration order")
	}
}
