package rules

import (
	"fmt"
	"go/ast"
	"go/token"
	"go/types"
	"os"
	"sort"
	"strings"

	"npverif/internal/core"
	"npverif/internal/facts"
)

// E8 — formatter agreement.

// FormatterEntries returns the writeOutput / writeDiffOutput implementations.
func FormatterEntries(p *core.Program) []*core.FuncDecl {
	var out []*core.FuncDecl
	for _, fd := range p.Funcs {
		if (fd.Pkg.PkgPath == core.PkgConnlist && fd.Obj.Name() == "writeOutput") || (fd.Pkg.PkgPath == core.PkgDiff && fd.Obj.Name() == "writeDiffOutput") {
			out = append(out, fd)
		}
	}
	sort.Slice(out, func(i, j int) bool { return out[i].Key() < out[j].Key() })
	return out
}

// formatterFuncs: functions reachable from the formatter entries that belong to the formatting layer.
func formatterFuncs(p *core.Program) []*core.FuncDecl {
	var roots []*types.Func
	for _, fd := range FormatterEntries(p) {
		roots = append(roots, fd.Obj)
	}
	for _, n := range []string{"ConnectionsListToString"} {
		if fd := p.Func(core.PkgConnlist, "ConnlistAnalyzer", n); fd != nil {
			roots = append(roots, fd.Obj)
		}
	}
	if fd := p.Func(core.PkgDiff, "DiffAnalyzer", "ConnectivityDiffToString"); fd != nil {
		roots = append(roots, fd.Obj)
	}
	var out []*core.FuncDecl
	for fn := range p.Reachable(roots...) {
		fd := p.ByObj[fn]
		if fd == nil {
			continue
		}
		switch fd.Pkg.PkgPath {
		case core.PkgConnlist, core.PkgDiff, core.PkgDot, core.PkgCommon:
			out = append(out, fd)
		}
	}
	sort.Slice(out, func(i, j int) bool { return out[i].Key() < out[j].Key() })
	return out
}

// Frozen table of the early exits / skips that exist in the formatting layer
// today, each with the reason why nothing computed is dropped.
var formatExitAllowed = map[string]string{
	"netpol/connlist.(*formatMD).writeOutput: early return #1":              "no exposure section without the flag: returns the complete connlist part",
	"netpol/connlist.(*formatText).writeOutput: early return #1":            "no exposure section without the flag: returns the complete connlist part",
	"netpol/connlist.(singleConnFields).exposureString: early return #1":    "alternative rendering (ingress line puts the exposed peer first); all three fields in both",
	"netpol/connlist.ValidateOutputFormat: early return #1":                 "format validation, not a row path",
	"netpol/connlist.formExposureItemAsSingleConnFiled: early return #1":    "alternative rendering of the other end (entire-cluster vs labels); same connection",
	"netpol/connlist.formSingleExposureConn: early return #1":               "alternative orientation (ingress: src is the potential peer); same fields",
	"netpol/connlist.getExposureEdgeLine: early return #1":                  "alternative orientation of the dot edge; same connection",
	"netpol/connlist.getMDHeader: early return #1":                          "alternative column order (orientation parity is rule C09-orient)",
	"netpol/connlist.getMDLine: early return #1":                            "alternative column order (orientation parity is rule C09-orient)",
	"netpol/connlist.getMdSubSectionHeader: early return #1":                "alternative sub-section header",
	"netpol/connlist.getRepresentativeNamespaceString: early return #1":     "a namespace selector that is exactly the name label is printed as the namespace name",
	"netpol/connlist.getRepresentativeNamespaceString: early return #2":     "brackets for textual formats",
	"netpol/connlist.getRepresentativePodString: early return #1":           "brackets for textual formats",
	"netpol/connlist.getXgressExposureEdges: continue #1":                   "placed after the emission of the entire-cluster edge (the entry has no labels to draw)",
	"netpol/connlist.peerNameAndColorByType: early return #1":               "alternative node style for IP peers",
	"netpol/connlist.peerNameAndColorByType: early return #2":               "alternative node style for the ingress controller",
	"netpol/connlist.writeCsvSubSection: early return #1":                   "an empty sub-section prints no header (nothing to drop: the list is empty)",
	"netpol/diff.(*DiffAnalyzer).ConnectivityDiffToString: early return #1": "empty diff prints the empty string (documented)",
	"netpol/diff.(*connsPair).Dst: early return #1":                         "accessor: an added pair has only the second side (C04-b)",
	"netpol/diff.(*connsPair).Ref1Connectivity: early return #1":            "accessor: an added pair has no first connection (C04-b)",
	"netpol/diff.(*connsPair).Ref2Connectivity: early return #1":            "accessor: a removed pair has no second connection (C04-b)",
	"netpol/diff.(*connsPair).Src: early return #1":                         "accessor: an added pair has only the second side (C04-b)",
	"netpol/diff.(*diffFormatText).singleDiffLine: early return #1":         "alternative rendering with the workload annotation appended",
	"netpol/diff.ValidateDiffOutputFormat: early return #1":                 "format validation, not a row path",
	"netpol/diff.getNodePeerLabelAndType: early return #1":                  "alternative node label for IP peers / ingress controller",
	"netpol/internal/common.(*ConnectionSet).String: early return #1":       "canonical rendering of the full set",
	"netpol/internal/common.(*ConnectionSet).String: early return #2":       "canonical rendering of the empty set",
	"netpol/internal/common.(*portRange).String: early return #1":           "a range start-end vs a single port",
	"netpol/internal/common.ConnStrFromConnProperties: early return #1":     "canonical rendering of the full set",
	"netpol/internal/common.ConnStrFromConnProperties: early return #2":     "canonical rendering of the empty set",
	"netpol/internal/common.MakeConnectionSet: early return #1":             "constructor, not a row path",
}

// NoDropExits is the no-drop rule of C09: in the formatting layer every
// early success exit (a non-error return that is not the function's final
// statement) and every continue/break must be listed with its reason; a new
// one can drop rows or parts of a row.
func NoDropExits(p *core.Program, r *core.Report, rule string) {
	fns := formatterFuncs(p)
	if len(fns) < 30 {
		r.Add(rule, "formatting layer", "-", core.Undecided, fmt.Sprintf("only %d functions reachable from the formatter entries", len(fns)))
		return
	}
	r.Extra["c09_formatting_functions"] = len(fns)
	for _, fd := range fns {
		info := fd.Pkg.TypesInfo
		w := facts.NewWalker(info)
		n := len(fd.Decl.Body.List)
		var final ast.Stmt
		if n > 0 {
			final = fd.Decl.Body.List[n-1]
		}
		count := map[string]int{}
		emit := func(kind string, at ast.Node, f facts.Formula) {
			cond := condSummary(f)
			count[kind]++
			c := fmt.Sprintf("%s: %s #%d", fd.Key(), kind, count[kind])
			if why, ok := formatExitAllowed[c]; ok {
				r.Add(rule, c, p.Pos(at.Pos()), core.Excepted, why+" [today under: "+cond+"]")
				return
			}
			if os.Getenv("NPVERIF_DUMP_EXITS") != "" {
				fmt.Printf("\t%q: \"%s\",\n", c, cond)
			}
			r.Bad(rule, c, p.Pos(at.Pos()), "an early exit / skip in the formatting layer that is not in the reviewed table: rows, or parts of a row, of the computed result may be left out of this output format")
		}
		w.OnStmt = func(s ast.Stmt, f facts.Formula) {
			if w.FuncLitDepth > 0 {
				return
			}
			switch x := s.(type) {
			case *ast.ReturnStmt:
				if s == final || IsErrorReturn(p, w, fd.Obj, x, f) {
					return
				}
				// a return that closes the final if/else or switch of the function is a final return too
				if isTailPosition(fd.Decl.Body, x) {
					return
				}
				emit("early return", x, f)
			case *ast.BranchStmt:
				if x.Tok == token.CONTINUE || (x.Tok == token.BREAK && len(w.Loops) > 0 && !inSwitchOnly(fd.Decl.Body, x)) {
					emit(x.Tok.String(), x, f)
				}
			}
		}
		w.WalkBody(fd.Decl.Body, nil)
	}
}

// condSummary renders the positive/negative atoms known at a point (versions stripped, sorted): a stable description of the guard.
func condSummary(f facts.Formula) string {
	var parts []string
	for _, a := range facts.Atoms(f) {
		if strings.HasPrefix(a, "?") {
			continue
		}
		switch {
		case facts.Entails(f, facts.Atom(a)):
			parts = append(parts, facts.StripVersions(a))
		case facts.Entails(f, facts.Not{X: facts.Atom(a)}):
			parts = append(parts, "!"+facts.StripVersions(a))
		}
	}
	sort.Strings(parts)
	return strings.Join(parts, " & ")
}

// isTailPosition: the return is the last statement of a branch of the function's last statement (recursively).
func isTailPosition(body *ast.BlockStmt, ret *ast.ReturnStmt) bool {
	var tail func(s ast.Stmt) bool
	tail = func(s ast.Stmt) bool {
		switch x := s.(type) {
		case *ast.ReturnStmt:
			return x == ret
		case *ast.BlockStmt:
			if len(x.List) == 0 {
				return false
			}
			return tail(x.List[len(x.List)-1])
		case *ast.IfStmt:
			if x.Else == nil {
				return false
			}
			return tail(x.Body) || tail(x.Else)
		case *ast.SwitchStmt:
			for _, cc := range x.Body.List {
				cl := cc.(*ast.CaseClause)
				if len(cl.Body) > 0 && tail(cl.Body[len(cl.Body)-1]) {
					return true
				}
			}
		}
		return false
	}
	if len(body.List) == 0 {
		return false
	}
	return tail(body.List[len(body.List)-1])
}

// inSwitchOnly: the break leaves a switch/select, not a loop.
func inSwitchOnly(body *ast.BlockStmt, b *ast.BranchStmt) bool {
	res := false
	var visit func(n ast.Node, inSwitch bool)
	visit = func(n ast.Node, inSwitch bool) {
		ast.Inspect(n, func(m ast.Node) bool {
			if m == n {
				return true
			}
			switch x := m.(type) {
			case *ast.SwitchStmt:
				visit(x.Body, true)
				return false
			case *ast.TypeSwitchStmt:
				visit(x.Body, true)
				return false
			case *ast.ForStmt:
				visit(x.Body, false)
				return false
			case *ast.RangeStmt:
				visit(x.Body, false)
				return false
			case *ast.BranchStmt:
				if x == b {
					res = inSwitch
				}
			}
			return true
		})
	}
	visit(body, false)
	return res
}

// rowTypes: element types that carry one computed row.
func isRowType(t types.Type) bool {
	s := t.String()
	for _, n := range []string{"connlist.Peer2PeerConnection", "connlist.ExposedPeer", "connlist.XgressExposureData", "connlist.singleConnFields", "diff.singleDiffFields", "diff.SrcDstDiff", "diff.connsPair"} {
		if strings.HasSuffix(s, n) {
			return true
		}
	}
	return false
}

// PerRowEmission: in the formatting layer every loop over rows emits something on every iteration.
func PerRowEmission(p *core.Program, r *core.Report, rule string) {
	n := 0
	for _, fd := range formatterFuncs(p) {
		info := fd.Pkg.TypesInfo
		var loops []*ast.RangeStmt
		ast.Inspect(fd.Decl.Body, func(nd ast.Node) bool {
			rs, ok := nd.(*ast.RangeStmt)
			if !ok {
				return true
			}
			t := info.TypeOf(rs.X)
			if t == nil {
				return true
			}
			if sl, ok := t.Underlying().(*types.Slice); ok && isRowType(sl.Elem()) {
				loops = append(loops, rs)
			}
			return true
		})
		for li, loop := range loops {
			loop := loop
			w := facts.NewWalker(info)
			bad := ""
			isEmit := func(nd ast.Node) bool {
				switch x := nd.(type) {
				case *ast.AssignStmt:
					if x.Tok != token.DEFINE {
						for _, l := range x.Lhs {
							if id, ok := ast.Unparen(l).(*ast.Ident); !ok || id.Name != "_" {
								return true // store into an outer variable / element / fold
							}
						}
					}
					for _, l := range x.Lhs {
						if _, ok := ast.Unparen(l).(*ast.IndexExpr); ok {
							return true
						}
					}
					for _, rh := range x.Rhs {
						if c, ok := ast.Unparen(rh).(*ast.CallExpr); ok && core.IsBuiltinCall(info, c, "append") {
							return true
						}
					}
				case *ast.CallExpr:
					if fn := core.Callee(info, x); fn != nil {
						switch fn.Name() {
						case "Write", "WriteString", "Fprintf", "saveConnsWithIPs", "AddPeerToNsGroup":
							return true
						}
					}
				}
				return false
			}
			inLoop := func() bool {
				for _, l := range w.Loops {
					if l == ast.Stmt(loop) {
						return true
					}
				}
				return false
			}
			w.Transfer = func(st int, nd ast.Node, f facts.Formula) int {
				if nd == ast.Node(loop) {
					return 0
				}
				if inLoop() && isEmit(nd) {
					return 1
				}
				return st
			}
			w.OnLoopBodyEnd = func(l ast.Stmt, states uint64, f facts.Formula) {
				if l == ast.Stmt(loop) && states&1 != 0 && bad == "" {
					bad = "an iteration can end without emitting anything for the row"
				}
			}
			w.OnBranch = func(b *ast.BranchStmt, states uint64, f facts.Formula) {
				if inLoop() && b.Tok == token.CONTINUE && states&1 != 0 && bad == "" {
					bad = "a row is skipped by the continue at " + p.Pos(b.Pos()) + " before anything was emitted for it"
				}
			}
			w.WalkBody(fd.Decl.Body, nil)
			n++
			r.Check(bad == "", rule, fmt.Sprintf("%s: loop #%d over %s emits for every row", fd.Key(), li+1, core.ExprStr(loop.X)), p.Pos(loop.Pos()),
				"every path through the body passes an emission (indexed store, append, writer call or group insertion)", bad)
		}
	}
	r.Floor(rule, 10)
	_ = n
}

// rowAccessorCallers: the accessors of a computed row may be called only from the shared projections.
var rowAccessorCallers = map[string]map[string]string{
	"ProtocolsAndPorts": {
		"formSingleP2PConn": "shared projection (txt/json/csv/md)", "addConnlistOutputData": "dot projection: same ConnStrFromConnProperties call",
		"GetConnectionSetFromP2PConnection": "rebuilds the set for diff equality", "refineP2PConnByDisjointPeers": "copies the row for a refined IP peer",
		"getDirsConnsStrings": "diff projection", "ProtocolsAndPorts": "accessor itself", "mergeBySrcOrDstIPPeers": "copies the row for a merged IP range", "getConnStringsFromConnsPair": "diff grouping key",
		"Ref1Connectivity": "diff row accessor: hands the first side's row on unchanged", "Ref2Connectivity": "diff row accessor: hands the second side's row on unchanged",
	},
	"PotentialConnectivity": {
		"formExposureItemAsSingleConnFiled": "shared exposure projection", "getXgressExposureEdges": "dot exposure projection", "PotentialConnectivity": "accessor itself",
	},
	"Ref1Connectivity": {"getDirsConnsStrings": "diff projection", "Ref1Connectivity": "accessor itself"},
	"Ref2Connectivity": {"getDirsConnsStrings": "diff projection", "Ref2Connectivity": "accessor itself"},
}

// ProjectionSharing is the who-may-format rule of C09.
func ProjectionSharing(p *core.Program, r *core.Report, rule string) {
	n := 0
	for _, fd := range p.Funcs {
		info := fd.Pkg.TypesInfo
		seen := map[string]bool{}
		ast.Inspect(fd.Decl.Body, func(nd ast.Node) bool {
			c, ok := nd.(*ast.CallExpr)
			if !ok {
				return true
			}
			fn := core.Callee(info, c)
			if fn == nil || !p.IsModuleFunc(fn) {
				return true
			}
			allowed, ok := rowAccessorCallers[fn.Name()]
			if !ok || seen[fn.Name()] {
				return true
			}
			// only the row interfaces / their implementations
			sig := fn.Type().(*types.Signature)
			if sig.Recv() == nil || sig.Params().Len() != 0 {
				return true
			}
			seen[fn.Name()] = true
			n++
			why, okc := allowed[fd.Obj.Name()]
			r.Check(okc, rule, fmt.Sprintf("%s: reads a row through %s()", fd.Key(), fn.Name()), p.Pos(c.Pos()), why,
				"a computed row is read through "+fn.Name()+"() outside the shared projection functions: this format builds its own rendering of the connection, which can drift from the other formats")
			return true
		})
	}
	r.Floor(rule, 8)
	_ = n
	// every list formatter obtains its rows through the shared projections
	shared := map[string]bool{"formSingleP2PConn": true, "getConnlistAsSortedSingleConnFieldsArray": true, "getExposureConnsAsSortedSingleConnFieldsArray": true, "addConnlistOutputData": true, "addExposureOutputData": true,
		"writeDiffLinesOrderedByCategory": true, "formDiffFieldsDataOfDiffConns": true, "getDirsConnsStrings": true}
	for _, e := range FormatterEntries(p) {
		uses := false
		for fn := range p.Reachable(e.Obj) {
			if shared[fn.Name()] {
				uses = true
			}
		}
		r.Check(uses, rule+"-entry", e.Key()+": obtains its rows through the shared projections", p.Pos(e.Decl.Pos()), "reaches a shared projection function", "the formatter no longer goes through the shared projection functions")
	}
	r.Floor(rule+"-entry", 9)
}

// OrientationParity: header builder and row builder of a table are called with
// the same orientation flag, and order the columns alike inside each branch.
func OrientationParity(p *core.Program, r *core.Report, rule string) {
	pairs := []struct{ header, rows string }{{"writeCsvColumnsHeader", "writeTableRows"}, {"getMDHeader", "getMDLine"}}
	for _, pr := range pairs {
		h, rw := p.Func(core.PkgConnlist, "", pr.header), p.Func(core.PkgConnlist, "", pr.rows)
		if h == nil || rw == nil {
			r.Lost(rule, pr.header+" / "+pr.rows)
			continue
		}
		// inside the builders: column order per branch
		ho, ro := columnOrders(h), columnOrders(rw)
		okCols := len(ho) == 2 && len(ro) == 2 && ho[0] == ro[0] && ho[1] == ro[1] && ho[0] != ho[1]
		r.Check(okCols, rule, fmt.Sprintf("%s / %s: header and row order the columns alike in both orientations", pr.header, pr.rows), p.Pos(h.Decl.Pos()),
			fmt.Sprintf("header %v, rows %v", ho, ro), fmt.Sprintf("header orders %v but rows order %v: a column header sits over the wrong value in one orientation", ho, ro))
	}
	// call sites: in a function that calls both a header builder and a row builder, the flags agree
	headerFns := map[string]bool{"writeCsvColumnsHeader": true, "getMDHeader": true}
	rowFns := map[string]bool{"writeTableRows": true, "writeMdLines": true}
	n := 0
	for _, fd := range p.FuncsIn(core.PkgConnlist) {
		info := fd.Pkg.TypesInfo
		var hflags, rflags []string
		ast.Inspect(fd.Decl.Body, func(nd ast.Node) bool {
			c, ok := nd.(*ast.CallExpr)
			if !ok || len(c.Args) == 0 {
				return true
			}
			fn := core.Callee(info, c)
			if fn == nil {
				return true
			}
			last := core.ExprStr(c.Args[len(c.Args)-1])
			if headerFns[fn.Name()] {
				hflags = append(hflags, last)
			}
			if rowFns[fn.Name()] {
				rflags = append(rflags, last)
			}
			return true
		})
		if len(hflags) == 0 || len(rflags) == 0 {
			continue
		}
		n++
		sort.Strings(hflags)
		sort.Strings(rflags)
		r.Check(strings.Join(hflags, ",") == strings.Join(rflags, ","), rule, fd.Key()+": header and rows are built with the same orientation flag", p.Pos(fd.Decl.Pos()),
			"flags "+strings.Join(hflags, ","), fmt.Sprintf("header built with %v, rows with %v", hflags, rflags))
	}
	// md: the exposure sub-sections pair writeMdLines(x, F) with getMdSubSectionHeader(!F) (ingress tables are dst-first)
	if fd := p.Func(core.PkgConnlist, "formatMD", "writeMdExposureLines"); fd != nil {
		info := fd.Pkg.TypesInfo
		okPairs, nPairs := true, 0
		ast.Inspect(fd.Decl.Body, func(nd ast.Node) bool {
			c, ok := nd.(*ast.CallExpr)
			if !ok || len(c.Args) != 2 {
				return true
			}
			fn := core.Callee(info, c)
			if fn == nil || fn.Name() != "writeExposureSubSection" {
				return true
			}
			lines, _ := ast.Unparen(c.Args[0]).(*ast.CallExpr)
			head, _ := ast.Unparen(c.Args[1]).(*ast.CallExpr)
			if lines == nil || head == nil || len(lines.Args) != 2 || len(head.Args) != 1 {
				okPairs = false
				return true
			}
			nPairs++
			lf, _ := core.ConstString(info, lines.Args[1])
			hf, _ := core.ConstString(info, head.Args[0])
			// rows srcFirst == !isIngress of the header
			if !((lf == "true" && hf == "false") || (lf == "false" && hf == "true")) {
				okPairs = false
			}
			// the data matches the direction: ingress header with the ingress list
			data := strings.ToLower(core.ExprStr(lines.Args[0]))
			if (hf == "true") != strings.Contains(data, "ing") {
				okPairs = false
			}
			return true
		})
		r.Check(okPairs && nPairs == 2, rule, fd.Key()+": each md exposure sub-section pairs its rows, orientation and header", p.Pos(fd.Decl.Pos()), "egress rows src-first under the egress header, ingress rows dst-first under the ingress header", "an md exposure sub-section pairs rows, orientation flag and header inconsistently")
	}
	if sub := p.Func(core.PkgConnlist, "", "getMdSubSectionHeader"); sub != nil {
		info := sub.Pkg.TypesInfo
		w := facts.NewWalker(info)
		ok := true
		nn := 0
		w.OnExpr = func(e ast.Expr, f facts.Formula) {
			c, isC := e.(*ast.CallExpr)
			if !isC || len(c.Args) != 1 {
				return
			}
			if fn := core.Callee(info, c); fn == nil || fn.Name() != "getMDHeader" {
				return
			}
			nn++
			v, _ := core.ConstString(info, c.Args[0])
			ing := facts.Atom("b:" + w.PathOfVar(sub.Obj.Type().(*types.Signature).Params().At(0)))
			if !((v == "false" && facts.Entails(f, ing)) || (v == "true" && facts.Entails(f, facts.Not{X: ing}))) {
				ok = false
			}
		}
		w.WalkBody(sub.Decl.Body, nil)
		r.Check(ok && nn == 2, rule, sub.Key()+": ingress sub-section header is dst-first, egress src-first", p.Pos(sub.Decl.Pos()), "getMDHeader(false) under isIngress, getMDHeader(true) otherwise", "the md sub-section header orientation does not match its direction")
	}
	// exposure orientation: ingress entries have the potential peer as source
	if fd := p.Func(core.PkgConnlist, "", "formSingleExposureConn"); fd != nil {
		info := fd.Pkg.TypesInfo
		sig := fd.Obj.Type().(*types.Signature)
		w := facts.NewWalker(info)
		ok := true
		nn := 0
		var ingP *types.Var
		for i := 0; i < sig.Params().Len(); i++ {
			if b, isB := sig.Params().At(i).Type().Underlying().(*types.Basic); isB && b.Kind() == types.Bool {
				ingP = sig.Params().At(i)
			}
		}
		w.OnExpr = func(e ast.Expr, f facts.Formula) {
			cl, isCL := e.(*ast.CompositeLit)
			if !isCL || ingP == nil || !strings.HasSuffix(info.TypeOf(cl).String(), "singleConnFields") {
				return
			}
			nn++
			vals := map[string]string{}
			for _, el := range cl.Elts {
				if kv, isKV := el.(*ast.KeyValueExpr); isKV {
					vals[core.ExprStr(kv.Key)] = core.ExprStr(kv.Value)
				}
			}
			ing := facts.Atom("b:" + w.PathOfVar(ingP))
			peerName, repName := sig.Params().At(0).Name(), sig.Params().At(1).Name()
			switch {
			case facts.Entails(f, ing):
				ok = ok && vals["Src"] == repName && vals["Dst"] == peerName
			case facts.Entails(f, facts.Not{X: ing}):
				ok = ok && vals["Src"] == peerName && vals["Dst"] == repName
			default:
				ok = false
			}
		}
		w.WalkBody(fd.Decl.Body, nil)
		r.Check(ok && nn == 2, rule, fd.Key()+": ingress exposure has the potential peer as source, egress as destination", p.Pos(fd.Decl.Pos()), "both orientations present", "the orientation of an exposure entry is swapped for one direction")
	}
	r.Floor(rule, 6)
	_ = n
}

// columnOrders returns, for a header/row builder, the column order in the srcFirst branch and in the other branch ("src,dst,conn").
func columnOrders(fd *core.FuncDecl) []string {
	info := fd.Pkg.TypesInfo
	sig := fd.Obj.Type().(*types.Signature)
	var flag *types.Var
	for i := 0; i < sig.Params().Len(); i++ {
		if b, ok := sig.Params().At(i).Type().Underlying().(*types.Basic); ok && b.Kind() == types.Bool {
			flag = sig.Params().At(i)
		}
	}
	if flag == nil {
		return nil
	}
	norm := func(e ast.Expr) string {
		s := strings.ToLower(core.ExprStr(e))
		switch {
		case strings.HasSuffix(s, "src"):
			return "src"
		case strings.HasSuffix(s, "dst"):
			return "dst"
		case strings.HasSuffix(s, "conn") || strings.HasSuffix(s, "connstring"):
			return "conn"
		}
		return ""
	}
	orders := map[bool]string{}
	w := facts.NewWalker(info)
	record := func(elts []ast.Expr, f facts.Formula) {
		var cols []string
		for _, e := range elts {
			if c := norm(e); c != "" {
				cols = append(cols, c)
			}
		}
		if len(cols) != 3 {
			return
		}
		fa := facts.Atom("b:" + w.PathOfVar(flag))
		switch {
		case facts.Entails(f, fa):
			orders[true] = strings.Join(cols, ",")
		case facts.Entails(f, facts.Not{X: fa}):
			orders[false] = strings.Join(cols, ",")
		default:
			// unconditional first definition (csv: default literal then overwritten under !srcFirst)
			if _, ok := orders[true]; !ok {
				orders[true] = strings.Join(cols, ",")
			}
		}
	}
	w.OnExpr = func(e ast.Expr, f facts.Formula) {
		switch x := e.(type) {
		case *ast.CompositeLit:
			record(x.Elts, f)
		case *ast.CallExpr:
			if fn := core.Callee(info, x); fn != nil && fn.Name() == "Sprintf" && len(x.Args) == 4 {
				record(x.Args[1:], f)
			}
		}
	}
	w.WalkBody(fd.Decl.Body, nil)
	if len(orders) != 2 {
		return nil
	}
	return []string{orders[true], orders[false]}
}

// SelectorRenderingLossless is C09-sel: a function that renders a label selector either passes the whole selector to
// the full writer on the path to its return, or returns under a path condition that pins BOTH components of the
// selector (matchLabels and matchExpressions) - an abbreviation is lossless only if nothing it omits can vary.
func SelectorRenderingLossless(p *core.Program, r *core.Report, rule string) {
	full := p.Func(core.PkgConnlist, "", "writeLabelSelectorAsString")
	if full == nil {
		r.Lost(rule, "connlist.writeLabelSelectorAsString")
		return
	}
	n := 0
	for _, fd := range p.FuncsIn(core.PkgConnlist) {
		if fd.Obj == full.Obj {
			continue
		}
		sig := fd.Obj.Type().(*types.Signature)
		if sig.Results().Len() != 1 {
			continue
		}
		if b, ok := sig.Results().At(0).Type().Underlying().(*types.Basic); !ok || b.Kind() != types.String {
			continue
		}
		var sel *types.Var
		for i := 0; i < sig.Params().Len(); i++ {
			if strings.HasSuffix(sig.Params().At(i).Type().String(), "meta/v1.LabelSelector") {
				sel = sig.Params().At(i)
			}
		}
		if sel == nil {
			continue
		}
		info := fd.Pkg.TypesInfo
		w := facts.NewWalker(info)
		pinnedBy := func(f facts.Formula) (bool, []string) {
			name := w.PathOfVar(sel)
			pinned := map[string]bool{}
			for _, a := range facts.Atoms(f) {
				if !facts.Entails(f, facts.Atom(a)) {
					continue
				}
				if strings.Contains(a, name+".Size()==0") || a == "empty:"+name {
					pinned["MatchLabels"], pinned["MatchExpressions"] = true, true
				}
				for _, c := range []string{"MatchLabels", "MatchExpressions"} {
					if strings.HasPrefix(a, "eq:len("+name+"."+c+")==") || strings.HasPrefix(a, "len:"+name+"."+c+"==") || a == "empty:"+name+"."+c {
						pinned[c] = true
					}
				}
			}
			var missing []string
			for _, c := range []string{"MatchLabels", "MatchExpressions"} {
				if !pinned[c] {
					missing = append(missing, c)
				}
			}
			return len(missing) == 0, missing
		}
		callsFull := func(e ast.Node) bool {
			found := false
			ast.Inspect(e, func(m ast.Node) bool {
				if c, ok := m.(*ast.CallExpr); ok && core.Callee(info, c) == full.Obj && len(c.Args) == 1 {
					if id, isID := ast.Unparen(c.Args[0]).(*ast.Ident); isID && info.ObjectOf(id) == sel {
						found = true
					}
				}
				return true
			})
			return found
		}
		isStringVar := func(e ast.Expr) bool {
			id, ok := ast.Unparen(e).(*ast.Ident)
			if !ok {
				return false
			}
			v, ok := info.ObjectOf(id).(*types.Var)
			if !ok {
				return false
			}
			b, ok := v.Type().Underlying().(*types.Basic)
			return ok && b.Kind() == types.String
		}
		const (
			stNone = iota
			stFull
			stPinned
			stLossy
		)
		lossyWhy := ""
		// the text is chosen where a string variable is assigned: classify the choice there (the branch facts are gone at the return)
		w.Transfer = func(st int, nd ast.Node, f facts.Formula) int {
			as, ok := nd.(*ast.AssignStmt)
			if !ok || len(as.Lhs) != 1 || len(as.Rhs) != 1 || !isStringVar(as.Lhs[0]) {
				return st
			}
			if _, isIdx := ast.Unparen(as.Rhs[0]).(*ast.IndexExpr); isIdx {
				return st // a lookup (nsName, ok := m[k]) does not choose the text
			}
			switch {
			case callsFull(as.Rhs[0]):
				return stFull
			default:
				if ok2, missing := pinnedBy(f); ok2 {
					return stPinned
				} else if st == stNone || st == stLossy {
					lossyWhy = strings.Join(missing, " and ") + " can still vary where `" + core.ExprStr(as) + "` is chosen (" + facts.StripVersions(facts.String(f)) + ")"
					return stLossy
				}
			}
			return st
		}
		w.OnExit = func(st int, ret *ast.ReturnStmt, f facts.Formula) {
			if w.FuncLitDepth > 0 || ret == nil {
				return
			}
			n++
			construct := fmt.Sprintf("%s: `return %s` renders the whole selector or is taken only where both of its components are pinned", fd.Key(), exprList(ret.Results))
			bad := "the selector is rendered in an abbreviated form although its %s: two different selectors are printed alike, so the output no longer encodes the computed exposure entry"
			switch st {
			case stFull:
				r.OK(rule, construct, p.Pos(ret.Pos()), "the full writer produced the text on this path")
			case stPinned:
				r.OK(rule, construct, p.Pos(ret.Pos()), "the abbreviated text was chosen where both components are pinned")
			case stLossy:
				r.Bad(rule, construct, p.Pos(ret.Pos()), fmt.Sprintf(bad, lossyWhy))
			default:
				if callsFull(ret) {
					r.OK(rule, construct, p.Pos(ret.Pos()), "the full writer is called in the return")
					return
				}
				ok2, missing := pinnedBy(f)
				r.Check(ok2, rule, construct, p.Pos(ret.Pos()), "both components pinned by the path condition", fmt.Sprintf(bad, strings.Join(missing, " and ")+" can still vary on this path ("+facts.StripVersions(facts.String(f))+")"))
			}
		}
		w.WalkBody(fd.Decl.Body, nil)
	}
	r.RuleCounts[rule] = n
	r.Floor(rule, 3)
}
