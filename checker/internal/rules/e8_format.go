package rules

import (
	"fmt"
	"go/ast"
	"go/token"
	"go/types"
	"os"
	"sort"
	"strconv"
	"strings"

	"npverif/internal/core"
	"npverif/internal/facts"
)

// E8 — formatter agreement.

// FormatterEntries returns the writeOutput / writeDiffOutput implementations.
func FormatterEntries(p *core.Program) []*core.FuncDecl {
	var out []*core.FuncDecl
	for _, fd := range p.Funcs {
		if (fd.Pkg.PkgPath == core.PkgConnlist && core.RefName(fd.Obj) == "writeOutput") || (fd.Pkg.PkgPath == core.PkgDiff && core.RefName(fd.Obj) == "writeDiffOutput") {
			out = append(out, fd)
		}
	}
	sort.Slice(out, func(i, j int) bool { return out[i].Key() < out[j].Key() })
	return out
}

// formatterFuncs: functions reachable from the formatter entries that belong to the formatting layer.
func formatterFuncs(p *core.Program) []*core.FuncDecl {
	var roots []*types.Func
	for _, fd := range FormatterEntries(p) {
		roots = append(roots, fd.Obj)
	}
	for _, n := range []string{"ConnectionsListToString"} {
		if fd := p.Func(core.PkgConnlist, "ConnlistAnalyzer", n); fd != nil {
			roots = append(roots, fd.Obj)
		}
	}
	if fd := p.Func(core.PkgDiff, "DiffAnalyzer", "ConnectivityDiffToString"); fd != nil {
		roots = append(roots, fd.Obj)
	}
	var out []*core.FuncDecl
	for fn := range p.Reachable(roots...) {
		fd := p.ByObj[fn]
		if fd == nil {
			continue
		}
		switch fd.Pkg.PkgPath {
		case core.PkgConnlist, core.PkgDiff, core.PkgDot, core.PkgCommon:
			out = append(out, fd)
		}
	}
	sort.Slice(out, func(i, j int) bool { return out[i].Key() < out[j].Key() })
	return out
}

// Frozen table of the early exits / skips that exist in the formatting layer
// today, each with the reason why nothing computed is dropped.
var formatExitAllowed = map[string]string{
	"netpol/connlist.getXgressExposureEdges: continue #1": "placed after the emission of the entire-cluster edge (the entry has no labels to draw)",
}

// NoDropExits is the no-drop rule of C09 for loops: in the formatting layer
// every continue/break must be listed with its reason; a new one can drop rows.
// (Early returns are judged by ReturnCompleteness.)
func NoDropExits(p *core.Program, r *core.Report, rule string) {
	fns := formatterFuncs(p)
	if len(fns) < 30 {
		r.Add(rule, "formatting layer", "-", core.Undecided, fmt.Sprintf("only %d functions reachable from the formatter entries", len(fns)))
		return
	}
	r.Extra["c09_formatting_functions"] = len(fns)
	for _, fd := range fns {
		info := fd.Pkg.TypesInfo
		w := facts.NewWalker(info)
		n := len(fd.Decl.Body.List)
		var final ast.Stmt
		if n > 0 {
			final = fd.Decl.Body.List[n-1]
		}
		count := map[string]int{}
		emit := func(kind string, at ast.Node, f facts.Formula) {
			cond := condSummary(f)
			count[kind]++
			c := fmt.Sprintf("%s: %s #%d", fd.Key(), kind, count[kind])
			if why, ok := formatExitAllowed[c]; ok {
				r.Add(rule, c, p.Pos(at.Pos()), core.Excepted, why+" [today under: "+cond+"]")
				return
			}
			// a skip under a condition under which the reference tree already skips in this function (there written as a
			// guard around the work, or as a continue): the same elements are left out as before
			if b, isBranch := at.(*ast.BranchStmt); isBranch && b.Tok == token.CONTINUE {
				if sc := skipCondOf(info, fd.Decl.Body, b); sc != "" {
					for _, owner := range SiteOwners(p, fd) {
						for _, known := range p.RefSkips(owner) {
							if known == sc {
								r.OK(rule, fmt.Sprintf("%s: continue under the reviewed skip condition %s", fd.Key(), sc), p.Pos(at.Pos()), "the reference tree skips under the same condition in this function")
								return
							}
						}
					}
				}
			}
			if os.Getenv("NPVERIF_DUMP_EXITS") != "" {
				fmt.Printf("\t%q: \"%s\",\n", c, cond)
			}
			r.Bad(rule, c, p.Pos(at.Pos()), "an early exit / skip in the formatting layer that is not in the reviewed table: rows, or parts of a row, of the computed result may be left out of this output format")
		}
		w.OnStmt = func(s ast.Stmt, f facts.Formula) {
			if w.FuncLitDepth > 0 {
				return
			}
			switch x := s.(type) {
			case *ast.ReturnStmt:
				_ = final // early returns are judged by ReturnCompleteness (data flow), not by a table of positions
			case *ast.BranchStmt:
				if x.Tok == token.CONTINUE || (x.Tok == token.BREAK && len(w.Loops) > 0 && !inSwitchOnly(fd.Decl.Body, x)) {
					emit(x.Tok.String(), x, f)
				}
			}
		}
		w.WalkBody(fd.Decl.Body, nil)
	}
}

// skipCondOf: the normalised condition of the if statement whose branch ends with this continue ("" when the continue is not
// the last statement of an if branch).
func skipCondOf(info *types.Info, body *ast.BlockStmt, b *ast.BranchStmt) string {
	out := ""
	ast.Inspect(body, func(n ast.Node) bool {
		ifs, ok := n.(*ast.IfStmt)
		if !ok {
			return true
		}
		if l := ifs.Body.List; len(l) > 0 && l[len(l)-1] == ast.Stmt(b) {
			out = core.NormCond(info, ifs.Cond)
		}
		if els, ok := ifs.Else.(*ast.BlockStmt); ok {
			if l := els.List; len(l) > 0 && l[len(l)-1] == ast.Stmt(b) {
				out = core.NegCond(core.NormCond(info, ifs.Cond))
			}
		}
		return true
	})
	return out
}

// condSummary renders the positive/negative atoms known at a point (versions stripped, sorted): a stable description of the guard.
func condSummary(f facts.Formula) string {
	var parts []string
	for _, a := range facts.Atoms(f) {
		if strings.HasPrefix(a, "?") {
			continue
		}
		switch {
		case facts.Entails(f, facts.Atom(a)):
			parts = append(parts, facts.StripVersions(a))
		case facts.Entails(f, facts.Not{X: facts.Atom(a)}):
			parts = append(parts, "!"+facts.StripVersions(a))
		}
	}
	sort.Strings(parts)
	return strings.Join(parts, " & ")
}

// isTailPosition: the return is the last statement of a branch of the function's last statement (recursively).
func isTailPosition(body *ast.BlockStmt, ret *ast.ReturnStmt) bool {
	var tail func(s ast.Stmt) bool
	tail = func(s ast.Stmt) bool {
		switch x := s.(type) {
		case *ast.ReturnStmt:
			return x == ret
		case *ast.BlockStmt:
			if len(x.List) == 0 {
				return false
			}
			return tail(x.List[len(x.List)-1])
		case *ast.IfStmt:
			if x.Else == nil {
				return false
			}
			return tail(x.Body) || tail(x.Else)
		case *ast.SwitchStmt:
			for _, cc := range x.Body.List {
				cl := cc.(*ast.CaseClause)
				if len(cl.Body) > 0 && tail(cl.Body[len(cl.Body)-1]) {
					return true
				}
			}
		}
		return false
	}
	if len(body.List) == 0 {
		return false
	}
	return tail(body.List[len(body.List)-1])
}

// inSwitchOnly: the break leaves a switch/select, not a loop.
func inSwitchOnly(body *ast.BlockStmt, b *ast.BranchStmt) bool {
	res := false
	var visit func(n ast.Node, inSwitch bool)
	visit = func(n ast.Node, inSwitch bool) {
		ast.Inspect(n, func(m ast.Node) bool {
			if m == n {
				return true
			}
			switch x := m.(type) {
			case *ast.SwitchStmt:
				visit(x.Body, true)
				return false
			case *ast.TypeSwitchStmt:
				visit(x.Body, true)
				return false
			case *ast.ForStmt:
				visit(x.Body, false)
				return false
			case *ast.RangeStmt:
				visit(x.Body, false)
				return false
			case *ast.BranchStmt:
				if x == b {
					res = inSwitch
				}
			}
			return true
		})
	}
	visit(body, false)
	return res
}

// rowTypes: element types that carry one computed row.
func isRowType(t types.Type) bool {
	s := t.String()
	for _, n := range []string{"connlist.Peer2PeerConnection", "connlist.ExposedPeer", "connlist.XgressExposureData", "connlist.singleConnFields", "diff.singleDiffFields", "diff.SrcDstDiff", "diff.connsPair"} {
		if strings.HasSuffix(s, n) {
			return true
		}
	}
	return false
}

// PerRowEmission: in the formatting layer every loop over rows emits something on every iteration.
func PerRowEmission(p *core.Program, r *core.Report, rule string) {
	n := 0
	for _, fd := range formatterFuncs(p) {
		info := fd.Pkg.TypesInfo
		var loops []*ast.RangeStmt
		ast.Inspect(fd.Decl.Body, func(nd ast.Node) bool {
			rs, ok := nd.(*ast.RangeStmt)
			if !ok {
				return true
			}
			t := info.TypeOf(rs.X)
			if t == nil {
				return true
			}
			if sl, ok := t.Underlying().(*types.Slice); ok && isRowType(sl.Elem()) {
				loops = append(loops, rs)
			}
			return true
		})
		for li, loop := range loops {
			loop := loop
			w := facts.NewWalker(info)
			bad := ""
			isEmit := func(nd ast.Node) bool {
				switch x := nd.(type) {
				case *ast.AssignStmt:
					if x.Tok != token.DEFINE {
						for _, l := range x.Lhs {
							if id, ok := ast.Unparen(l).(*ast.Ident); !ok || id.Name != "_" {
								return true // store into an outer variable / element / fold
							}
						}
					}
					for _, l := range x.Lhs {
						if _, ok := ast.Unparen(l).(*ast.IndexExpr); ok {
							return true
						}
					}
					for _, rh := range x.Rhs {
						if c, ok := ast.Unparen(rh).(*ast.CallExpr); ok && core.IsBuiltinCall(info, c, "append") {
							return true
						}
					}
				case *ast.CallExpr:
					if fn := core.Callee(info, x); fn != nil {
						switch core.RefName(fn) {
						case "Write", "WriteString", "Fprintf", "saveConnsWithIPs", "AddPeerToNsGroup":
							return true
						}
					}
				}
				return false
			}
			inLoop := func() bool {
				for _, l := range w.Loops {
					if l == ast.Stmt(loop) {
						return true
					}
				}
				return false
			}
			w.Transfer = func(st int, nd ast.Node, f facts.Formula) int {
				if nd == ast.Node(loop) {
					return 0
				}
				if inLoop() && isEmit(nd) {
					return 1
				}
				return st
			}
			w.OnLoopBodyEnd = func(l ast.Stmt, states uint64, f facts.Formula) {
				if l == ast.Stmt(loop) && states&1 != 0 && bad == "" {
					bad = "an iteration can end without emitting anything for the row"
				}
			}
			w.OnBranch = func(b *ast.BranchStmt, states uint64, f facts.Formula) {
				if inLoop() && b.Tok == token.CONTINUE && states&1 != 0 && bad == "" {
					bad = "a row is skipped by the continue at " + p.Pos(b.Pos()) + " before anything was emitted for it"
				}
			}
			w.WalkBody(fd.Decl.Body, nil)
			n++
			r.Check(bad == "", rule, fmt.Sprintf("%s: loop #%d over %s emits for every row", fd.Key(), li+1, core.ExprStr(loop.X)), p.Pos(loop.Pos()),
				"every path through the body passes an emission (indexed store, append, writer call or group insertion)", bad)
		}
	}
	r.Floor(rule, 10)
	_ = n
}

// ProjectionSharing is the who-may-format rule of C09: in the formatting layer a row's protocols-to-ports map is only
// handed on (to the shared ConnStrFromConnProperties, to a copy constructor, to a helper) - it is never taken apart
// (ranged over, indexed, measured) outside package common, where the one shared rendering lives. Decided by the TYPE
// of the operand, so it does not matter through which accessor, local or parameter the map arrives.
func ProjectionSharing(p *core.Program, r *core.Report, rule string) {
	n := 0
	isRowMap := func(t types.Type) bool {
		if t == nil {
			return false
		}
		m, ok := t.Underlying().(*types.Map)
		if !ok {
			return false
		}
		sl, ok := m.Elem().Underlying().(*types.Slice)
		if !ok {
			return false
		}
		nt := core.NamedOf(sl.Elem())
		return nt != nil && nt.Obj().Name() == "PortRange" && nt.Obj().Pkg() != nil && nt.Obj().Pkg().Path() == core.PkgCommon
	}
	for _, fd := range formatterFuncs(p) {
		if fd.Pkg.PkgPath == core.PkgCommon {
			continue
		}
		info := fd.Pkg.TypesInfo
		bad := ""
		handsOn := 0
		ast.Inspect(fd.Decl.Body, func(nd ast.Node) bool {
			switch x := nd.(type) {
			case *ast.RangeStmt:
				if isRowMap(info.TypeOf(x.X)) && bad == "" {
					bad = "ranges over " + core.Stable(info, x.X) + " at " + p.Pos(x.Pos())
				}
			case *ast.IndexExpr:
				if isRowMap(info.TypeOf(x.X)) && bad == "" {
					bad = "indexes " + core.Stable(info, x.X) + " at " + p.Pos(x.Pos())
				}
			case *ast.CallExpr:
				if core.IsBuiltinCall(info, x, "len") && len(x.Args) == 1 && isRowMap(info.TypeOf(x.Args[0])) && bad == "" {
					bad = "measures " + core.Stable(info, x.Args[0]) + " at " + p.Pos(x.Pos())
				}
				for _, a := range x.Args {
					if isRowMap(info.TypeOf(a)) {
						handsOn++
					}
				}
			}
			return true
		})
		if handsOn == 0 && bad == "" {
			continue
		}
		n++
		r.Check(bad == "", rule, fmt.Sprintf("%s: hands a row's protocols and ports on without taking them apart", fd.Key()), p.Pos(fd.Decl.Pos()), "",
			"a computed row's protocols-to-ports map is taken apart in the formatting layer ("+bad+") instead of being rendered by the shared projection: this format builds its own rendering of the connection, which can drift from the other formats")
	}
	r.RuleCounts[rule] = n
	r.Floor(rule, 2)
	// every list formatter obtains its rows through the shared projections
	shared := map[string]bool{"formSingleP2PConn": true, "getConnlistAsSortedSingleConnFieldsArray": true, "getExposureConnsAsSortedSingleConnFieldsArray": true, "addConnlistOutputData": true, "addExposureOutputData": true,
		"writeDiffLinesOrderedByCategory": true, "formDiffFieldsDataOfDiffConns": true, "getDirsConnsStrings": true}
	for _, e := range FormatterEntries(p) {
		uses := false
		for fn := range p.Reachable(e.Obj) {
			if shared[core.RefName(fn)] {
				uses = true
			}
		}
		r.Check(uses, rule+"-entry", e.Key()+": obtains its rows through the shared projections", p.Pos(e.Decl.Pos()), "reaches a shared projection function", "the formatter no longer goes through the shared projection functions")
	}
	r.Floor(rule+"-entry", 9)
}

// OrientationParity: header builder and row builder of a table are called with
// the same orientation flag, and order the columns alike inside each branch.
func OrientationParity(p *core.Program, r *core.Report, rule string) {
	pairs := []struct{ header, rows string }{{"writeCsvColumnsHeader", "writeTableRows"}, {"getMDHeader", "getMDLine"}}
	for _, pr := range pairs {
		h, rw := p.Func(core.PkgConnlist, "", pr.header), p.Func(core.PkgConnlist, "", pr.rows)
		if h == nil || rw == nil {
			r.Lost(rule, pr.header+" / "+pr.rows)
			continue
		}
		// inside the builders: column order per branch
		ho, ro := columnOrders(h), columnOrders(rw)
		okCols := len(ho) == 2 && len(ro) == 2 && ho[0] == ro[0] && ho[1] == ro[1] && ho[0] != ho[1]
		r.Check(okCols, rule, fmt.Sprintf("%s / %s: header and row order the columns alike in both orientations", pr.header, pr.rows), p.Pos(h.Decl.Pos()),
			fmt.Sprintf("header %v, rows %v", ho, ro), fmt.Sprintf("header orders %v but rows order %v: a column header sits over the wrong value in one orientation", ho, ro))
	}
	// call sites: in a function that calls both a header builder and a row builder, the flags agree
	headerFns := map[string]bool{"writeCsvColumnsHeader": true, "getMDHeader": true}
	rowFns := map[string]bool{"writeTableRows": true, "writeMdLines": true}
	n := 0
	for _, fd := range p.FuncsIn(core.PkgConnlist) {
		info := fd.Pkg.TypesInfo
		var hflags, rflags []string
		ast.Inspect(fd.Decl.Body, func(nd ast.Node) bool {
			c, ok := nd.(*ast.CallExpr)
			if !ok || len(c.Args) == 0 {
				return true
			}
			fn := core.Callee(info, c)
			if fn == nil {
				return true
			}
			last := core.ExprStr(c.Args[len(c.Args)-1])
			if headerFns[core.RefName(fn)] {
				hflags = append(hflags, last)
			}
			if rowFns[core.RefName(fn)] {
				rflags = append(rflags, last)
			}
			return true
		})
		if len(hflags) == 0 || len(rflags) == 0 {
			continue
		}
		n++
		sort.Strings(hflags)
		sort.Strings(rflags)
		r.Check(strings.Join(hflags, ",") == strings.Join(rflags, ","), rule, fd.Key()+": header and rows are built with the same orientation flag", p.Pos(fd.Decl.Pos()),
			"flags "+strings.Join(hflags, ","), fmt.Sprintf("header built with %v, rows with %v", hflags, rflags))
	}
	// md: the exposure sub-sections pair writeMdLines(x, F) with getMdSubSectionHeader(!F) (ingress tables are dst-first)
	if fd := p.Func(core.PkgConnlist, "formatMD", "writeMdExposureLines"); fd != nil {
		info := fd.Pkg.TypesInfo
		okPairs, nPairs := true, 0
		ast.Inspect(fd.Decl.Body, func(nd ast.Node) bool {
			c, ok := nd.(*ast.CallExpr)
			if !ok || len(c.Args) != 2 {
				return true
			}
			fn := core.Callee(info, c)
			if fn == nil || core.RefName(fn) != "writeExposureSubSection" {
				return true
			}
			lines, _ := ast.Unparen(c.Args[0]).(*ast.CallExpr)
			head, _ := ast.Unparen(c.Args[1]).(*ast.CallExpr)
			if lines == nil || head == nil || len(lines.Args) != 2 || len(head.Args) != 1 {
				okPairs = false
				return true
			}
			nPairs++
			lf, _ := core.ConstString(info, lines.Args[1])
			hf, _ := core.ConstString(info, head.Args[0])
			// rows srcFirst == !isIngress of the header
			if !((lf == "true" && hf == "false") || (lf == "false" && hf == "true")) {
				okPairs = false
			}
			// the data matches the direction: ingress header with the ingress list
			data := strings.ToLower(core.ExprStr(lines.Args[0]))
			if (hf == "true") != strings.Contains(data, "ing") {
				okPairs = false
			}
			return true
		})
		r.Check(okPairs && nPairs == 2, rule, fd.Key()+": each md exposure sub-section pairs its rows, orientation and header", p.Pos(fd.Decl.Pos()), "egress rows src-first under the egress header, ingress rows dst-first under the ingress header", "an md exposure sub-section pairs rows, orientation flag and header inconsistently")
	}
	if sub := p.Func(core.PkgConnlist, "", "getMdSubSectionHeader"); sub != nil {
		info := sub.Pkg.TypesInfo
		w := facts.NewWalker(info)
		ok := true
		nn := 0
		w.OnExpr = func(e ast.Expr, f facts.Formula) {
			c, isC := e.(*ast.CallExpr)
			if !isC || len(c.Args) != 1 {
				return
			}
			if fn := core.Callee(info, c); fn == nil || core.RefName(fn) != "getMDHeader" {
				return
			}
			nn++
			v, _ := core.ConstString(info, c.Args[0])
			ing := facts.Atom("b:" + w.PathOfVar(sub.Obj.Type().(*types.Signature).Params().At(0)))
			if !((v == "false" && facts.Entails(f, ing)) || (v == "true" && facts.Entails(f, facts.Not{X: ing}))) {
				ok = false
			}
		}
		w.WalkBody(sub.Decl.Body, nil)
		r.Check(ok && nn == 2, rule, sub.Key()+": ingress sub-section header is dst-first, egress src-first", p.Pos(sub.Decl.Pos()), "getMDHeader(false) under isIngress, getMDHeader(true) otherwise", "the md sub-section header orientation does not match its direction")
	}
	// exposure orientation: ingress entries have the potential peer as source
	if fd := p.Func(core.PkgConnlist, "", "formSingleExposureConn"); fd != nil {
		info := fd.Pkg.TypesInfo
		sig := fd.Obj.Type().(*types.Signature)
		w := facts.NewWalker(info)
		ok := true
		nn := 0
		var ingP *types.Var
		for i := 0; i < sig.Params().Len(); i++ {
			if b, isB := sig.Params().At(i).Type().Underlying().(*types.Basic); isB && b.Kind() == types.Bool {
				ingP = sig.Params().At(i)
			}
		}
		w.OnExpr = func(e ast.Expr, f facts.Formula) {
			cl, isCL := e.(*ast.CompositeLit)
			if !isCL || ingP == nil || !strings.HasSuffix(info.TypeOf(cl).String(), "singleConnFields") {
				return
			}
			nn++
			vals := map[string]string{}
			for _, el := range cl.Elts {
				if kv, isKV := el.(*ast.KeyValueExpr); isKV {
					vals[core.ExprStr(kv.Key)] = core.ExprStr(kv.Value)
				}
			}
			ing := facts.Atom("b:" + w.PathOfVar(ingP))
			peerName, repName := core.RefName(sig.Params().At(0)), core.RefName(sig.Params().At(1))
			switch {
			case facts.Entails(f, ing):
				ok = ok && vals["Src"] == repName && vals["Dst"] == peerName
			case facts.Entails(f, facts.Not{X: ing}):
				ok = ok && vals["Src"] == peerName && vals["Dst"] == repName
			default:
				ok = false
			}
		}
		w.WalkBody(fd.Decl.Body, nil)
		r.Check(ok && nn == 2, rule, fd.Key()+": ingress exposure has the potential peer as source, egress as destination", p.Pos(fd.Decl.Pos()), "both orientations present", "the orientation of an exposure entry is swapped for one direction")
	}
	r.Floor(rule, 6)
	_ = n
}

// columnOrders returns, for a header/row builder, the column order in the srcFirst branch and in the other branch ("src,dst,conn").
func columnOrders(fd *core.FuncDecl) []string {
	info := fd.Pkg.TypesInfo
	sig := fd.Obj.Type().(*types.Signature)
	var flag *types.Var
	for i := 0; i < sig.Params().Len(); i++ {
		if b, ok := sig.Params().At(i).Type().Underlying().(*types.Basic); ok && b.Kind() == types.Bool {
			flag = sig.Params().At(i)
		}
	}
	if flag == nil {
		return nil
	}
	norm := func(e ast.Expr) string {
		s := strings.ToLower(core.ExprStr(e))
		switch {
		case strings.HasSuffix(s, "src"):
			return "src"
		case strings.HasSuffix(s, "dst"):
			return "dst"
		case strings.HasSuffix(s, "conn") || strings.HasSuffix(s, "connstring"):
			return "conn"
		}
		return ""
	}
	orders := map[bool]string{}
	w := facts.NewWalker(info)
	record := func(elts []ast.Expr, f facts.Formula) {
		var cols []string
		for _, e := range elts {
			if c := norm(e); c != "" {
				cols = append(cols, c)
			}
		}
		if len(cols) != 3 {
			return
		}
		fa := facts.Atom("b:" + w.PathOfVar(flag))
		switch {
		case facts.Entails(f, fa):
			orders[true] = strings.Join(cols, ",")
		case facts.Entails(f, facts.Not{X: fa}):
			orders[false] = strings.Join(cols, ",")
		default:
			// unconditional first definition (csv: default literal then overwritten under !srcFirst)
			if _, ok := orders[true]; !ok {
				orders[true] = strings.Join(cols, ",")
			}
		}
	}
	w.OnExpr = func(e ast.Expr, f facts.Formula) {
		switch x := e.(type) {
		case *ast.CompositeLit:
			record(x.Elts, f)
		case *ast.CallExpr:
			if fn := core.Callee(info, x); fn != nil && core.RefName(fn) == "Sprintf" && len(x.Args) == 4 {
				record(x.Args[1:], f)
			}
		}
	}
	w.WalkBody(fd.Decl.Body, nil)
	if len(orders) != 2 {
		return nil
	}
	return []string{orders[true], orders[false]}
}

// SelectorRenderingLossless is C09-sel: a function that renders a label selector either passes the whole selector to
// the full writer on the path to its return, or returns under a path condition that pins BOTH components of the
// selector (matchLabels and matchExpressions) - an abbreviation is lossless only if nothing it omits can vary.
func SelectorRenderingLossless(p *core.Program, r *core.Report, rule string) {
	full := p.Func(core.PkgConnlist, "", "writeLabelSelectorAsString")
	if full == nil {
		r.Lost(rule, "connlist.writeLabelSelectorAsString")
		return
	}
	n := 0
	for _, fd := range p.FuncsIn(core.PkgConnlist) {
		if fd.Obj == full.Obj {
			continue
		}
		sig := fd.Obj.Type().(*types.Signature)
		if sig.Results().Len() != 1 {
			continue
		}
		if b, ok := sig.Results().At(0).Type().Underlying().(*types.Basic); !ok || b.Kind() != types.String {
			continue
		}
		var sel *types.Var
		for i := 0; i < sig.Params().Len(); i++ {
			if strings.HasSuffix(sig.Params().At(i).Type().String(), "meta/v1.LabelSelector") {
				sel = sig.Params().At(i)
			}
		}
		if sel == nil {
			continue
		}
		info := fd.Pkg.TypesInfo
		w := facts.NewWalker(info)
		pinnedBy := func(f facts.Formula) (bool, []string) {
			name := w.PathOfVar(sel)
			pinned := map[string]bool{}
			for _, a := range facts.Atoms(f) {
				if !facts.Entails(f, facts.Atom(a)) {
					continue
				}
				if strings.Contains(a, name+".Size()==0") || a == "empty:"+name {
					pinned["MatchLabels"], pinned["MatchExpressions"] = true, true
				}
				for _, c := range []string{"MatchLabels", "MatchExpressions"} {
					if strings.HasPrefix(a, "eq:len("+name+"."+c+")==") || strings.HasPrefix(a, "len:"+name+"."+c+"==") || a == "empty:"+name+"."+c {
						pinned[c] = true
					}
				}
			}
			var missing []string
			for _, c := range []string{"MatchLabels", "MatchExpressions"} {
				if !pinned[c] {
					missing = append(missing, c)
				}
			}
			return len(missing) == 0, missing
		}
		callsFull := func(e ast.Node) bool {
			found := false
			ast.Inspect(e, func(m ast.Node) bool {
				if c, ok := m.(*ast.CallExpr); ok && core.Callee(info, c) == full.Obj && len(c.Args) == 1 {
					if id, isID := ast.Unparen(c.Args[0]).(*ast.Ident); isID && info.ObjectOf(id) == sel {
						found = true
					}
				}
				return true
			})
			return found
		}
		isStringVar := func(e ast.Expr) bool {
			id, ok := ast.Unparen(e).(*ast.Ident)
			if !ok {
				return false
			}
			v, ok := info.ObjectOf(id).(*types.Var)
			if !ok {
				return false
			}
			b, ok := v.Type().Underlying().(*types.Basic)
			return ok && b.Kind() == types.String
		}
		const (
			stNone = iota
			stFull
			stPinned
			stLossy
		)
		lossyWhy := ""
		// the text is chosen where a string variable is assigned: classify the choice there (the branch facts are gone at the return)
		w.Transfer = func(st int, nd ast.Node, f facts.Formula) int {
			as, ok := nd.(*ast.AssignStmt)
			if !ok || len(as.Lhs) != 1 || len(as.Rhs) != 1 || !isStringVar(as.Lhs[0]) {
				return st
			}
			if _, isIdx := ast.Unparen(as.Rhs[0]).(*ast.IndexExpr); isIdx {
				return st // a lookup (nsName, ok := m[k]) does not choose the text
			}
			switch {
			case callsFull(as.Rhs[0]):
				return stFull
			default:
				if ok2, missing := pinnedBy(f); ok2 {
					return stPinned
				} else if st == stNone || st == stLossy {
					lossyWhy = strings.Join(missing, " and ") + " can still vary where `" + core.ExprStr(as) + "` is chosen (" + facts.StripVersions(facts.String(f)) + ")"
					return stLossy
				}
			}
			return st
		}
		// default-then-override (`res := all; if sel.Size() != 0 { res = full(sel) }`): the abbreviated default was chosen
		// before the test; on the implicit else arm of the test that overrides it, the arm's facts decide whether the
		// default is lossless there
		w.Refine = func(st int, f facts.Formula) int {
			if st == stLossy {
				if ok2, _ := pinnedBy(f); ok2 {
					return stPinned
				}
			}
			return st
		}
		w.OnExit = func(st int, ret *ast.ReturnStmt, f facts.Formula) {
			if w.FuncLitDepth > 0 || ret == nil {
				return
			}
			n++
			construct := fmt.Sprintf("%s: `return %s` renders the whole selector or is taken only where both of its components are pinned", fd.Key(), exprList(ret.Results))
			bad := "the selector is rendered in an abbreviated form although its %s: two different selectors are printed alike, so the output no longer encodes the computed exposure entry"
			switch st {
			case stFull:
				r.OK(rule, construct, p.Pos(ret.Pos()), "the full writer produced the text on this path")
			case stPinned:
				r.OK(rule, construct, p.Pos(ret.Pos()), "the abbreviated text was chosen where both components are pinned")
			case stLossy:
				r.Bad(rule, construct, p.Pos(ret.Pos()), fmt.Sprintf(bad, lossyWhy))
			default:
				if callsFull(ret) {
					r.OK(rule, construct, p.Pos(ret.Pos()), "the full writer is called in the return")
					return
				}
				ok2, missing := pinnedBy(f)
				r.Check(ok2, rule, construct, p.Pos(ret.Pos()), "both components pinned by the path condition", fmt.Sprintf(bad, strings.Join(missing, " and ")+" can still vary on this path ("+facts.StripVersions(facts.String(f))+")"))
			}
		}
		w.WalkBody(fd.Decl.Body, nil)
	}
	r.RuleCounts[rule] = n
	r.Floor(rule, 3)
}

// ---------------------------------------------------------------- return completeness (replaces the table of early returns)

// returnPinTable: "function | atom (parameters by position)" -> what the atom pins and why. The entry applies only
// on paths whose condition entails the atom.
var returnPinTable = map[string]struct{ pins, why string }{
	"netpol/internal/common.ConnStrFromConnProperties | b:param#0":               {"param#1", "canonical form: when the all-connections flag is set the protocols map carries nothing (C11-c / C05-c)"},
	"netpol/internal/common.(*ConnectionSet).String | b:recv.AllowAll":           {"AllowedProtocols", "canonical form: under AllowAll the protocol map is empty (C11-c), so the constant renders the whole set"},
	"netpol/diff.(*DiffAnalyzer).ConnectivityDiffToString | b:param#0.IsEmpty()": {"*", "documented API: an empty diff renders as the empty string in every format"},
	"netpol/connlist.getXgressExposureEdges | !b:param#2":                        {"param#1", "an unprotected peer is exposed to the entire cluster on all connections and carries no exposure entries (C06-a: the entries are written under the protected branch only)"},
	"netpol/connlist.getXgressExposureConnsAsSingleConnFieldsArray | !b:param#2": {"param#3", "an unprotected peer is exposed to the entire cluster on all connections and carries no exposure entries (C06-a)"},
}

func ReturnCompleteness(p *core.Program, r *core.Report, rule string) {
	fns := formatterFuncs(p)
	if len(fns) < 30 {
		r.Add(rule, "formatting layer", "-", core.Undecided, fmt.Sprintf("only %d functions reachable from the formatter entries", len(fns)))
		return
	}
	// fields of its receiver that a method reads (transitively through methods called on the receiver)
	methodReads := map[*types.Func]map[string]bool{}
	var readsOf func(fn *types.Func, depth int) map[string]bool
	readsOf = func(fn *types.Func, depth int) map[string]bool {
		if m, ok := methodReads[fn]; ok {
			return m
		}
		out := map[string]bool{}
		methodReads[fn] = out
		fd := p.ByObj[fn]
		if fd == nil || depth > 3 {
			out["*"] = true
			return out
		}
		sig := fn.Type().(*types.Signature)
		recv := sig.Recv()
		if recv == nil {
			return out
		}
		info := fd.Pkg.TypesInfo
		ast.Inspect(fd.Decl.Body, func(n ast.Node) bool {
			switch x := n.(type) {
			case *ast.SelectorExpr:
				if id, ok := ast.Unparen(x.X).(*ast.Ident); ok && info.ObjectOf(id) == recv {
					if core.FieldOf(info, x) != nil {
						out[x.Sel.Name] = true
					} else if callee, isF := info.ObjectOf(x.Sel).(*types.Func); isF {
						for k := range readsOf(callee, depth+1) {
							out[k] = true
						}
					}
				}
			case *ast.Ident:
				// the receiver used as a whole (passed on, compared, ...)
				_ = x
			}
			return true
		})
		return out
	}
	configRecv := map[string]bool{"ConnlistAnalyzer": true, "DiffAnalyzer": true}
	for _, e := range FormatterEntries(p) {
		configRecv[core.RecvTypeName(e.Obj.Type().(*types.Signature))] = true
	}
	pinTable := map[string]struct{ pins, why string }{}
	for k, v := range returnPinTable {
		pinTable[k] = v
	}
	for _, e := range FormatterEntries(p) {
		if e.Pkg.PkgPath == core.PkgConnlist {
			pinTable[e.Key()+" | !b:param#2"] = struct{ pins, why string }{"param#1", "the exposure section exists only under the exposure flag; without the flag the analyzer computes no exposure entries"}
		}
	}
	n := 0
	for _, fd := range fns {
		info := fd.Pkg.TypesInfo
		sig := fd.Obj.Type().(*types.Signature)
		if sig.Results().Len() == 0 {
			continue
		}
		if b, ok := sig.Results().At(0).Type().Underlying().(*types.Basic); ok && b.Info()&types.IsBoolean != 0 {
			continue // predicates and comparators do not render
		}
		if core.IsErrorType(sig.Results().At(0).Type()) {
			continue
		}
		switch rt := sig.Results().At(0).Type().Underlying().(type) {
		case *types.Basic, *types.Slice, *types.Map, *types.Struct:
			_ = rt
		default:
			continue // constructors and accessors (interfaces, pointers) hand out objects, they do not render
		}
		// inputs
		structParam := map[types.Object]bool{}
		var params []*types.Var
		if sig.Recv() != nil {
			params = append(params, sig.Recv())
		}
		for i := 0; i < sig.Params().Len(); i++ {
			params = append(params, sig.Params().At(i))
		}
		isInput := map[types.Object]bool{}
		for _, v := range params {
			isInput[v] = true
			if v == sig.Recv() && configRecv[core.RecvTypeName(sig)] {
				continue // fields of the formatter / analyzer object are configuration (labels, flags), not computed results
			}
			t := v.Type()
			if pt, ok := t.Underlying().(*types.Pointer); ok {
				t = pt.Elem()
			}
			if nt := core.NamedOf(t); nt != nil && nt.Obj().Pkg() != nil && strings.HasPrefix(nt.Obj().Pkg().Path(), core.ModPath) {
				if _, isStruct := nt.Underlying().(*types.Struct); isStruct {
					structParam[v] = true
				}
			}
		}
		// definitions of locals: flow-insensitive, except for the accumulating assignments (res = append(res, ..),
		// res += ..), which are threaded along the paths below so that a return placed before one does not count it
		defs := map[types.Object][]ast.Expr{}
		defStmt := map[ast.Expr]*ast.AssignStmt{}
		accum := map[*ast.AssignStmt]bool{}
		ast.Inspect(fd.Decl.Body, func(nd ast.Node) bool {
			switch x := nd.(type) {
			case *ast.AssignStmt:
				for i, l := range x.Lhs {
					id, ok := ast.Unparen(l).(*ast.Ident)
					if ok && len(x.Rhs) == len(x.Lhs) {
						if o := info.ObjectOf(id); o != nil && !isInput[o] {
							self := x.Tok == token.ADD_ASSIGN
							ast.Inspect(x.Rhs[i], func(m ast.Node) bool {
								if mid, isId := m.(*ast.Ident); isId && info.ObjectOf(mid) == o {
									self = true
								}
								return !self
							})
							if self {
								accum[x] = true
								defStmt[x.Rhs[i]] = x
							}
						}
					}
					if !ok {
						// store through a local (res[i] = ..., res.f = ...): the root local depends on the value
						if root := core.RootIdent(l); root != nil && !isInput[info.ObjectOf(root)] {
							if len(x.Rhs) == len(x.Lhs) {
								defs[info.ObjectOf(root)] = append(defs[info.ObjectOf(root)], x.Rhs[i])
							} else if len(x.Rhs) == 1 {
								defs[info.ObjectOf(root)] = append(defs[info.ObjectOf(root)], x.Rhs[0])
							}
						}
						continue
					}
					o := info.ObjectOf(id)
					if o == nil || isInput[o] {
						continue
					}
					if len(x.Rhs) == len(x.Lhs) {
						defs[o] = append(defs[o], x.Rhs[i])
					} else if len(x.Rhs) == 1 {
						defs[o] = append(defs[o], x.Rhs[0])
					}
				}
			case *ast.RangeStmt:
				for _, l := range []ast.Expr{x.Key, x.Value} {
					if id, ok := l.(*ast.Ident); ok && id.Name != "_" {
						if o := info.ObjectOf(id); o != nil {
							defs[o] = append(defs[o], x.X)
						}
					}
				}
			case *ast.ValueSpec:
				for i, nm := range x.Names {
					if i < len(x.Values) {
						defs[info.ObjectOf(nm)] = append(defs[info.ObjectOf(nm)], x.Values[i])
					}
				}
			case *ast.ExprStmt:
				// x.WriteString(v) / b.Write(v): the receiver local depends on the arguments
				if c, ok := x.X.(*ast.CallExpr); ok {
					if se, isSe := ast.Unparen(c.Fun).(*ast.SelectorExpr); isSe {
						if root := core.RootIdent(se.X); root != nil && !isInput[info.ObjectOf(root)] {
							for _, a := range c.Args {
								defs[info.ObjectOf(root)] = append(defs[info.ObjectOf(root)], a)
							}
						}
					}
				}
			}
			return true
		})
		curMask := -1
		var sinkIdx map[*ast.AssignStmt]int
		var dep func(e ast.Node, seen map[types.Object]bool, out map[string]bool)
		dep = func(e ast.Node, seen map[types.Object]bool, out map[string]bool) {
			if e == nil {
				return
			}
			ast.Inspect(e, func(nd ast.Node) bool {
				switch x := nd.(type) {
				case *ast.FuncLit:
					return true
				case *ast.SelectorExpr:
					if id, ok := ast.Unparen(x.X).(*ast.Ident); ok {
						o := info.ObjectOf(id)
						if structParam[o] {
							if core.FieldOf(info, x) != nil {
								out[x.Sel.Name] = true
								return false
							}
							if callee, isF := info.ObjectOf(x.Sel).(*types.Func); isF {
								rd := readsOf(callee, 0)
								if rd["*"] || len(rd) == 0 {
									out[id.Name] = true
								}
								for k := range rd {
									if k != "*" {
										out[k] = true
									}
								}
								return false
							}
						}
					}
				case *ast.Ident:
					o := info.ObjectOf(x)
					if o == nil {
						return true
					}
					if isInput[o] {
						if !(o == types.Object(sig.Recv()) && configRecv[core.RecvTypeName(sig)]) {
							out[x.Name] = true
						}
						return true
					}
					if ds, ok := defs[o]; ok && !seen[o] {
						seen[o] = true
						for _, d := range ds {
							if a := defStmt[d]; a != nil {
								if i, tracked := sinkIdx[a]; tracked && curMask&(1<<uint(i)) == 0 {
									continue // an accumulation this path has not passed
								}
							}
							dep(d, seen, out)
						}
					}
				}
				return true
			})
		}
		type retInfo struct {
			ret    *ast.ReturnStmt
			deps   map[string]bool
			pinned map[string]bool
			cond   string
			tabled []string
		}
		var rets []retInfo
		// seen-set stores M[k] = true on a map to bool
		seenStores := map[string]bool{}
		// sinks: statements that hand rendered text to the caller through a reference parameter (a map or slice that is
		// filled, a builder that is written); at most 6 per function are threaded along the paths.
		var sinks []ast.Node
		outParam := map[string]bool{}
		refParam := func(e ast.Expr) bool {
			root := core.RootIdent(e)
			if root == nil {
				return false
			}
			o := info.ObjectOf(root)
			if !isInput[o] {
				return false
			}
			switch o.Type().Underlying().(type) {
			case *types.Map, *types.Slice, *types.Pointer:
				outParam[core.RefName(o)] = true
				return true
			}
			return false
		}
		ast.Inspect(fd.Decl.Body, func(nd ast.Node) bool {
			switch x := nd.(type) {
			case *ast.FuncLit:
				return false
			case *ast.AssignStmt:
				for i, l := range x.Lhs {
					if ix, ok := ast.Unparen(l).(*ast.IndexExpr); ok && len(x.Rhs) == len(x.Lhs) {
						if mt, isMap := info.TypeOf(ix.X).Underlying().(*types.Map); isMap {
							if b, isB := mt.Elem().Underlying().(*types.Basic); isB && b.Info()&types.IsBoolean != 0 {
								if id, isId := ast.Unparen(x.Rhs[i]).(*ast.Ident); isId && id.Name == "true" {
									seenStores[core.ExprStr(ix)] = true
									continue
								}
							}
						}
					}
					if _, isId := ast.Unparen(l).(*ast.Ident); !isId && refParam(l) {
						sinks = append(sinks, x)
						break
					}
				}
			case *ast.ExprStmt:
				if c, ok := x.X.(*ast.CallExpr); ok {
					hit := false
					if se, isSe := ast.Unparen(c.Fun).(*ast.SelectorExpr); isSe && refParam(se.X) && info.Selections[se] != nil {
						hit = true
					}
					for _, a := range c.Args {
						if refParam(a) {
							hit = true
						}
					}
					if hit {
						sinks = append(sinks, x)
					}
				}
			}
			return true
		})
		var accList []*ast.AssignStmt
		for a := range accum {
			accList = append(accList, a)
		}
		sort.Slice(accList, func(i, j int) bool { return accList[i].Pos() < accList[j].Pos() })
		for _, a := range accList {
			sinks = append(sinks, a)
		}
		if len(sinks) > 6 {
			sinks = sinks[:6]
		}
		// an accumulation nested in a loop: a return placed after the loop counts it (the zero-iteration path is the
		// one where the ranged collection is empty; a body path that skips the accumulation is rule C09-emit's subject)
		loopEnd := map[int]token.Pos{}
		var loopStack []ast.Node
		var visit func(n ast.Node) bool
		visit = func(n ast.Node) bool {
			switch x := n.(type) {
			case *ast.ForStmt, *ast.RangeStmt:
				loopStack = append(loopStack, x)
				var body *ast.BlockStmt
				if f, ok := x.(*ast.ForStmt); ok {
					body = f.Body
				} else {
					body = x.(*ast.RangeStmt).Body
				}
				ast.Inspect(body, visit)
				loopStack = loopStack[:len(loopStack)-1]
				return false
			case *ast.AssignStmt:
				if len(loopStack) > 0 {
					for i, sk := range sinks {
						if sk == ast.Node(x) {
							loopEnd[i] = loopStack[0].End()
						}
					}
				}
			case *ast.ExprStmt:
				if len(loopStack) > 0 {
					for i, sk := range sinks {
						if sk == ast.Node(x) {
							loopEnd[i] = loopStack[0].End()
						}
					}
				}
			}
			return true
		}
		ast.Inspect(fd.Decl.Body, visit)
		sinkIdx = map[*ast.AssignStmt]int{}
		for i, sk := range sinks {
			if a, ok := sk.(*ast.AssignStmt); ok && accum[a] {
				sinkIdx[a] = i
			}
		}
		w := facts.NewWalker(info)
		w.Inline = true
		if len(sinks) > 0 {
			w.Transfer = func(st int, n ast.Node, f facts.Formula) int {
				for i, sk := range sinks {
					hit := false
					switch x := sk.(type) {
					case *ast.ExprStmt:
						hit = n == x.X
					case *ast.AssignStmt:
						hit = n == ast.Node(x)
					}
					if hit {
						return st | 1<<uint(i)
					}
				}
				return st
			}
		}
		// the facts under which each threaded statement runs: a path that reaches a later return without having passed
		// it has falsified its guard (the walker's facts are merged at joins, the path states are not)
		guard := map[int][]facts.Formula{}
		w.AtNode = func(n ast.Node, states uint64, f facts.Formula) {
			for i, sk := range sinks {
				hit := false
				switch x := sk.(type) {
				case *ast.ExprStmt:
					hit = n == x.X
				case *ast.AssignStmt:
					hit = n == ast.Node(x)
				}
				if hit {
					if _, done := guard[i]; !done {
						guard[i] = facts.Conjuncts(f)
					}
				}
			}
		}
		w.OnExit = func(st int, ret *ast.ReturnStmt, f facts.Formula) {
			if w.FuncLitDepth > 0 || ret == nil {
				return
			}
			if IsErrorReturn(p, w, fd.Obj, ret, f) {
				return
			}
			if !facts.Satisfiable(f) {
				return // infeasible path
			}
			if inExhaustiveDefault(info, fd.Decl.Body, ret) {
				return // default clause of a switch that handles every declared constant of the tag's type
			}
			curMask = st
			for i, end := range loopEnd {
				if ret.Pos() > end {
					curMask |= 1 << uint(i)
				}
			}
			st = curMask
			for i, sk := range sinks {
				if st&(1<<uint(i)) != 0 || ret.Pos() < sk.End() {
					continue
				}
				var open []facts.Formula
				for _, g := range guard[i] {
					if !facts.Entails(f, g) {
						open = append(open, g)
					}
				}
				if _, walked := guard[i]; walked && len(open) == 0 {
					return // this path state skipped a statement whose guard holds here: infeasible
				}
				if len(open) == 1 {
					f = facts.MkAnd(f, facts.MkNot(open[0]))
				}
			}
			if !facts.Satisfiable(f) {
				return
			}
			ri := retInfo{ret: ret, deps: map[string]bool{}, pinned: map[string]bool{}, cond: facts.StripVersions(facts.String(f))}
			if len(ret.Results) == 0 {
				// named results
				for i := 0; i < sig.Results().Len(); i++ {
					if v := sig.Results().At(i); core.RefName(v) != "" {
						if ds, ok := defs[v]; ok {
							for _, d := range ds {
								if a := defStmt[d]; a != nil {
									if i, tracked := sinkIdx[a]; tracked && curMask&(1<<uint(i)) == 0 {
										continue
									}
								}
								dep(d, map[types.Object]bool{v: true}, ri.deps)
							}
						}
					}
				}
			}
			for _, e := range ret.Results {
				dep(e, map[types.Object]bool{}, ri.deps)
			}
			for i, sk := range sinks {
				if a, isA := sk.(*ast.AssignStmt); isA && accum[a] {
					continue
				}
				if st&(1<<uint(i)) != 0 {
					dep(sk, map[types.Object]bool{}, ri.deps)
				}
			}
			// a boolean method of an input that is not a one-liner (so the walker keeps it opaque): when its positive
			// answer is entailed here, it pins the fields that every positive answer of the method pins
			for call, atom := range w.CallAtoms {
				if !facts.Entails(f, facts.Atom(atom)) {
					continue
				}
				se, isSe := ast.Unparen(call.Fun).(*ast.SelectorExpr)
				if !isSe || len(call.Args) != 0 {
					continue
				}
				id, isId := ast.Unparen(se.X).(*ast.Ident)
				if !isId || !structParam[info.ObjectOf(id)] {
					continue
				}
				if callee, isF := info.ObjectOf(se.Sel).(*types.Func); isF {
					for fld := range predicatePins(p, callee) {
						ri.pinned[fld] = true
					}
				}
			}
			// pins: atoms that fix an input (or a local computed from inputs)
			for _, a := range facts.Atoms(f) {
				if !facts.Entails(f, facts.Atom(a)) && !facts.Entails(f, facts.Not{X: facts.Atom(a)}) {
					continue
				}
				{
					neg := ""
					if !facts.Entails(f, facts.Atom(a)) {
						neg = "!"
					}
					if e, ok := pinTable[fd.Key()+" | "+neg+positional(facts.StripVersions(a), sig)]; ok {
						pin := e.pins
						if strings.HasPrefix(pin, "param#") {
							k, _ := strconv.Atoi(strings.TrimPrefix(pin, "param#"))
							if k < sig.Params().Len() {
								pin = core.RefName(sig.Params().At(k))
							}
						}
						ri.pinned[pin] = true
						ri.tabled = append(ri.tabled, e.why)
					}
				}
				kind, path, _ := strings.Cut(a, ":")
				if kind == "b" && facts.Entails(f, facts.Atom(a)) && seenStores[facts.StripVersions(path)] {
					ri.pinned["*"] = true // already emitted: the same function marks the key as seen when it renders it
					continue
				}
				switch kind {
				case "nil", "empty", "len", "eq", "b":
				default:
					continue
				}
				if kind == "b" && strings.ContainsAny(path, "(") {
					// an opaque predicate does not pin its argument - except a parameterless method of an input that is
					// not a module struct (an interface value, typically): the input's own API was asked about the
					// input, so leaving the input out on this path is an alternative rendering decided by looking at it
					sp := facts.StripVersions(path)
					for _, v := range params {
						if structParam[v] || v.Name() == "" {
							continue
						}
						if strings.HasPrefix(sp, v.Name()+".") && strings.HasSuffix(sp, "()") && strings.Count(sp, "(") == 1 && !strings.Contains(strings.TrimPrefix(sp, v.Name()+"."), ".") {
							ri.pinned[v.Name()] = true
						}
					}
					continue
				}
				if kind == "eq" && strings.Contains(path, "(") && !strings.Contains(path, ".Size()==0") && !strings.HasPrefix(path, "len(") {
					continue
				}
				// negative facts pin only for nil/empty/b (a value known to be non-empty still varies): only positive
				// len/eq pins count; nil/empty/b count both ways when they decide the alternative rendering
				if kind != "b" && !facts.Entails(f, facts.Atom(a)) {
					continue
				}
				path = facts.StripVersions(path)
				path = strings.TrimPrefix(path, "len(")
				for _, v := range params {
					nm := core.RefName(v)
					if path == nm || strings.HasPrefix(path, nm+".") || strings.HasPrefix(path, nm+"[") || strings.HasPrefix(path, nm+")") || strings.HasPrefix(path, nm+"=") {
						if structParam[v] && strings.HasPrefix(path, nm+".") {
							rest := strings.TrimPrefix(path, nm+".")
							fldName := rest
							for i, ch := range rest {
								if ch == '.' || ch == '[' || ch == ')' || ch == '=' || ch == '(' {
									fldName = rest[:i]
									break
								}
							}
							ri.pinned[fldName] = true
						} else {
							ri.pinned[nm] = true
						}
					}
				}
				// a local: pins what it was computed from
				for o, ds := range defs {
					nm := core.RefName(o)
					if path == nm || strings.HasPrefix(path, nm+"=") || strings.HasPrefix(path, nm+")") || strings.HasPrefix(path, nm+".") {
						for _, d := range ds {
							dep(d, map[types.Object]bool{o: true}, ri.pinned)
						}
					}
				}
			}
			rets = append(rets, ri)
		}
		w.WalkBody(fd.Decl.Body, nil)
		distinct := map[*ast.ReturnStmt]bool{}
		for _, ri := range rets {
			distinct[ri.ret] = true
		}
		if len(distinct) < 2 {
			continue
		}
		union := map[string]bool{}
		for _, ri := range rets {
			for k := range ri.deps {
				union[k] = true
			}
		}
		for _, ri := range rets {
			var left []string
			for k := range union {
				if outParam[k] {
					continue // a reference parameter the function fills is an output, not something to render
				}
				if !ri.deps[k] && !ri.pinned[k] && !ri.pinned["*"] {
					left = append(left, k)
				}
			}
			sort.Strings(left)
			n++
			if len(left) == 0 && len(ri.tabled) > 0 {
				r.Add(rule, fmt.Sprintf("%s: a return taken where a tabled condition pins what it leaves out", fd.Key()), p.Pos(ri.ret.Pos()), core.Excepted, strings.Join(ri.tabled, "; "))
				continue
			}
			if len(left) == 0 {
				r.OK(rule, fmt.Sprintf("%s: every return renders, or is taken where the path pins, each input another return renders", fd.Key()), p.Pos(ri.ret.Pos()), "")
				continue
			}
			r.Bad(rule, fmt.Sprintf("%s: a return leaves out %s", fd.Key(), strings.Join(left, ", ")), p.Pos(ri.ret.Pos()),
				fmt.Sprintf("`return %s` (under %s) is not computed from %s, which another return of the function renders, and the path condition does not pin it: that part of the computed result is dropped from this output on this path", exprList(ri.ret.Results), ri.cond, strings.Join(left, ", ")))
		}
	}
	r.RuleCounts[rule+"-returns"] = n
	r.Floor(rule+"-returns", 20)
}

// positional renders an atom with the parameters of sig by position (param#i / recv), so that tables keyed by atoms do
// not depend on parameter names.
func positional(a string, sig *types.Signature) string {
	repl := map[string]string{}
	if sig.Recv() != nil && core.RefName(sig.Recv()) != "" {
		repl[core.RefName(sig.Recv())] = "recv"
	}
	for i := 0; i < sig.Params().Len(); i++ {
		if nm := core.RefName(sig.Params().At(i)); nm != "" && nm != "_" {
			repl[nm] = fmt.Sprintf("param#%d", i)
		}
	}
	var b strings.Builder
	i := 0
	isId := func(c byte) bool {
		return c == '_' || c >= '0' && c <= '9' || c >= 'a' && c <= 'z' || c >= 'A' && c <= 'Z'
	}
	for i < len(a) {
		if isId(a[i]) && !(a[i] >= '0' && a[i] <= '9') {
			j := i
			for j < len(a) && isId(a[j]) {
				j++
			}
			w := a[i:j]
			if to, ok := repl[w]; ok && (i == 0 || a[i-1] != '.') {
				b.WriteString(to)
			} else {
				b.WriteString(w)
			}
			i = j
			continue
		}
		b.WriteByte(a[i])
		i++
	}
	return b.String()
}

// inExhaustiveDefault: ret sits in the default clause of a switch whose tag has a named module type and whose cases name
// every package-level constant of that type.
func inExhaustiveDefault(info *types.Info, body *ast.BlockStmt, ret *ast.ReturnStmt) bool {
	found := false
	ast.Inspect(body, func(n ast.Node) bool {
		sw, ok := n.(*ast.SwitchStmt)
		if !ok || sw.Tag == nil || found {
			return !found
		}
		nt := core.NamedOf(info.TypeOf(sw.Tag))
		if nt == nil || nt.Obj().Pkg() == nil || !strings.HasPrefix(nt.Obj().Pkg().Path(), core.ModPath) {
			return true
		}
		handled := map[types.Object]bool{}
		var def *ast.CaseClause
		for _, c := range sw.Body.List {
			cc := c.(*ast.CaseClause)
			if cc.List == nil {
				def = cc
			}
			for _, e := range cc.List {
				switch x := ast.Unparen(e).(type) {
				case *ast.Ident:
					handled[info.ObjectOf(x)] = true
				case *ast.SelectorExpr:
					handled[info.ObjectOf(x.Sel)] = true
				}
			}
		}
		if def == nil || !(def.Pos() <= ret.Pos() && ret.End() <= def.End()) {
			return true
		}
		sc := nt.Obj().Pkg().Scope()
		total := 0
		for _, nm := range sc.Names() {
			if c, isC := sc.Lookup(nm).(*types.Const); isC && types.Identical(c.Type(), nt) {
				total++
				if !handled[c] {
					return true
				}
			}
		}
		if total > 0 {
			found = true
		}
		return !found
	})
	return found
}

// predicatePins: the receiver fields that EVERY positive answer of the boolean method fn pins (an emptiness, nil,
// length or constant-equality fact on the field is entailed by the path of the answer).
func predicatePins(p *core.Program, fn *types.Func) map[string]bool {
	fd := p.ByObj[fn]
	if fd == nil {
		return nil
	}
	sig := fn.Type().(*types.Signature)
	if sig.Recv() == nil {
		return nil
	}
	info := fd.Pkg.TypesInfo
	w := facts.NewWalker(info)
	w.Inline = true
	var common map[string]bool
	w.OnExit = func(st int, ret *ast.ReturnStmt, f facts.Formula) {
		if w.FuncLitDepth > 0 || ret == nil || len(ret.Results) != 1 {
			return
		}
		if v, isC := core.ConstString(info, ret.Results[0]); isC && v == "false" {
			return
		}
		pf := facts.MkAnd(f, w.Cond(ret.Results[0]))
		if !facts.Satisfiable(pf) {
			return
		}
		pf = facts.MkAnd(pf, facts.LenImplications(pf))
		got := map[string]bool{}
		prefix := w.PathOfVar(sig.Recv()) + "."
		for _, a := range facts.Atoms(pf) {
			kind, path, _ := strings.Cut(a, ":")
			switch kind {
			case "nil", "empty", "len", "eq":
			default:
				continue
			}
			if !facts.Entails(pf, facts.Atom(a)) {
				continue
			}
			path = strings.TrimPrefix(facts.StripVersions(path), "len(")
			if !strings.HasPrefix(path, facts.StripVersions(prefix)) {
				continue
			}
			rest := strings.TrimPrefix(path, facts.StripVersions(prefix))
			name := rest
			for i, ch := range rest {
				if ch == '.' || ch == '[' || ch == ')' || ch == '=' || ch == '(' {
					name = rest[:i]
					break
				}
			}
			got[name] = true
		}
		if common == nil {
			common = got
			return
		}
		for k := range common {
			if !got[k] {
				delete(common, k)
			}
		}
	}
	w.WalkBody(fd.Decl.Body, nil)
	return common
}

// SelectorTextSingleAssignment is C09-sel-var: the text a selector renderer returned (a string function of package
// connlist that takes a LabelSelector - the subjects of C09-sel) is what identifies and labels a representative peer in
// the output; a local that holds it is never assigned again. Overwriting it with an abbreviation (the namespace name
// alone, say) on a path that does not pin the rest of the selector makes one format show a different relation than
// the others - and, where the text also serves as the node's identity, merges distinct peers.
func SelectorTextSingleAssignment(p *core.Program, r *core.Report, rule string) {
	isRenderer := func(fn *types.Func) bool {
		if fn == nil || fn.Pkg() == nil || fn.Pkg().Path() != core.PkgConnlist {
			return false
		}
		sig := fn.Type().(*types.Signature)
		if sig.Results().Len() != 1 {
			return false
		}
		if b, ok := sig.Results().At(0).Type().Underlying().(*types.Basic); !ok || b.Kind() != types.String {
			return false
		}
		for i := 0; i < sig.Params().Len(); i++ {
			if strings.HasSuffix(sig.Params().At(i).Type().String(), "meta/v1.LabelSelector") {
				return true
			}
		}
		return false
	}
	n := 0
	for _, fd := range p.FuncsIn(core.PkgConnlist) {
		info := fd.Pkg.TypesInfo
		holders := map[types.Object]*ast.AssignStmt{}
		ast.Inspect(fd.Decl.Body, func(nd ast.Node) bool {
			as, ok := nd.(*ast.AssignStmt)
			if !ok || len(as.Lhs) != 1 || len(as.Rhs) != 1 {
				return true
			}
			if c, isC := ast.Unparen(as.Rhs[0]).(*ast.CallExpr); isC && isRenderer(core.Callee(info, c)) {
				if id, isId := as.Lhs[0].(*ast.Ident); isId && id.Name != "_" {
					if _, has := holders[info.ObjectOf(id)]; !has {
						holders[info.ObjectOf(id)] = as
					}
				}
			}
			return true
		})
		for o, def := range holders {
			n++
			bad := ""
			ast.Inspect(fd.Decl.Body, func(nd ast.Node) bool {
				as, ok := nd.(*ast.AssignStmt)
				if !ok || as == def {
					return true
				}
				for _, l := range as.Lhs {
					if id, isId := ast.Unparen(l).(*ast.Ident); isId && info.ObjectOf(id) == o {
						if len(as.Rhs) == 1 {
							if c, isC := ast.Unparen(as.Rhs[0]).(*ast.CallExpr); isC && isRenderer(core.Callee(info, c)) {
								continue // re-rendered by a renderer: still a full rendering
							}
						}
						bad = p.Pos(as.Pos())
					}
				}
				return true
			})
			r.Check(bad == "", rule, fmt.Sprintf("%s: the selector text %s is not overwritten", fd.Key(), core.Stable(info, def.Rhs[0])), p.Pos(def.Pos()), "single assignment",
				"a local that holds the rendering of a label selector is assigned again at "+bad+": the text that labels (and in dot identifies) the representative peer no longer renders the whole selector on that path")
		}
	}
	r.RuleCounts[rule] = n
	r.Floor(rule, 2)
}
