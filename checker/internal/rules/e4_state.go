package rules

import (
	"fmt"
	"go/ast"
	"go/types"
	"sort"
	"strings"

	"npverif/internal/core"
	"npverif/internal/facts"
)

// ---------------------------------------------------------------- engine-state helpers

// EngineInfo resolves the anchors of the engine-state rules by type and role.
type EngineInfo struct {
	P          *core.Program
	Engine     *types.Named // eval.PolicyEngine
	CacheField *types.Var   // the field holding the result cache
	CacheType  *types.Named
	Query      *core.FuncDecl // CheckIfAllowed
	ReadSet    map[*types.Var]bool
	FullInval  map[*types.Func]bool // cache methods that purge everything
	PodInval   map[*types.Func]bool // cache methods that take a pod (pod-granular bookkeeping)
	wrapInval  map[*types.Func]bool // memo of alwaysInvalidates
}

func ResolveEngine(p *core.Program, r *core.Report) *EngineInfo {
	ei := &EngineInfo{P: p, ReadSet: map[*types.Var]bool{}, FullInval: map[*types.Func]bool{}, PodInval: map[*types.Func]bool{}}
	ei.Engine = p.LookupType(core.PkgEval, "PolicyEngine")
	if ei.Engine == nil {
		r.Lost("E4", "type eval.PolicyEngine")
		return nil
	}
	st := ei.Engine.Underlying().(*types.Struct)
	for i := 0; i < st.NumFields(); i++ {
		f := st.Field(i)
		if nt := core.NamedOf(f.Type()); nt != nil && nt.Obj().Pkg() != nil && nt.Obj().Pkg().Path() == core.PkgEval {
			// the cache type is the module struct that owns an lru cache
			if s2, ok := nt.Underlying().(*types.Struct); ok {
				for j := 0; j < s2.NumFields(); j++ {
					if strings.Contains(s2.Field(j).Type().String(), "golang-lru") {
						ei.CacheField, ei.CacheType = f, nt
					}
				}
			}
		}
	}
	if ei.CacheField == nil {
		r.Lost("E4a", "result-cache field of eval.PolicyEngine (a field whose struct type holds an lru cache)")
		return nil
	}
	ei.Query = p.Func(core.PkgEval, "PolicyEngine", "CheckIfAllowed")
	if ei.Query == nil {
		r.Lost("E4a", "(*PolicyEngine).CheckIfAllowed")
		return nil
	}
	// invalidators by role
	for _, m := range p.Methods(core.PkgEval, ei.CacheType.Obj().Name()) {
		purges := false
		ast.Inspect(m.Decl.Body, func(n ast.Node) bool {
			if call, ok := n.(*ast.CallExpr); ok {
				if fn := core.Callee(m.Pkg.TypesInfo, call); fn != nil && core.RefName(fn) == "Purge" && fn.Pkg() != nil && strings.Contains(fn.Pkg().Path(), "golang-lru") {
					purges = true
				}
			}
			return true
		})
		if purges {
			ei.FullInval[m.Obj] = true
			continue
		}
		sig := m.Obj.Type().(*types.Signature)
		for i := 0; i < sig.Params().Len(); i++ {
			if core.TypeIs(sig.Params().At(i).Type(), core.PkgK8s, "Pod") {
				// must also write the cache's bookkeeping or remove entries
				ei.PodInval[m.Obj] = true
			}
		}
	}
	if len(ei.FullInval) == 0 {
		r.Lost("E4a", "a method of the cache type that purges the lru cache")
		return nil
	}
	// read set: engine fields mentioned in functions reachable from the query
	reach := p.Reachable(ei.Query.Obj)
	for fn := range reach {
		fd := p.ByObj[fn]
		if fd == nil {
			continue
		}
		ast.Inspect(fd.Decl.Body, func(n ast.Node) bool {
			if se, ok := n.(*ast.SelectorExpr); ok {
				if fld := core.FieldOf(fd.Pkg.TypesInfo, se); fld != nil && ei.isEngineField(fld) && fld != ei.CacheField {
					ei.ReadSet[fld] = true
				}
			}
			return true
		})
	}
	return ei
}

func (ei *EngineInfo) isEngineField(v *types.Var) bool {
	st := ei.Engine.Underlying().(*types.Struct)
	for i := 0; i < st.NumFields(); i++ {
		if st.Field(i) == v {
			return true
		}
	}
	return false
}

// engineFieldIn returns the engine field selected somewhere along the access
// chain of e (pe.F, pe.F[k], pe.F[k].G ...), and the root identifier.
func (ei *EngineInfo) engineFieldIn(info *types.Info, e ast.Expr) (*types.Var, *ast.Ident) {
	var found *types.Var
	for {
		switch x := ast.Unparen(e).(type) {
		case *ast.SelectorExpr:
			if fld := core.FieldOf(info, x); fld != nil && ei.isEngineField(fld) {
				found = fld
			}
			e = x.X
		case *ast.IndexExpr:
			e = x.X
		case *ast.StarExpr:
			e = x.X
		case *ast.SliceExpr:
			e = x.X
		case *ast.Ident:
			return found, x
		default:
			return found, nil
		}
	}
}

// isParamOrRecv reports whether id names a parameter or the receiver of fd.
func isParamOrRecv(fd *core.FuncDecl, info *types.Info, id *ast.Ident) bool {
	o := info.ObjectOf(id)
	sig := fd.Obj.Type().(*types.Signature)
	if sig.Recv() == o {
		return true
	}
	for i := 0; i < sig.Params().Len(); i++ {
		if sig.Params().At(i) == o {
			return true
		}
	}
	return false
}

// stateWrite describes one write to an engine field found in a function.
type stateWrite struct {
	Node  ast.Node
	Field *types.Var
	Kind  string // "store", "map-insert", "delete", "append", "alias-delete", ...
	// for delete(m,k): the printed map and key expressions (presence-guard idiom)
	MapStr, KeyStr string
}

// findWrites lists the writes to engine fields (through a parameter/receiver
// engine, or through a local alias of a map loaded from such a field).
func (ei *EngineInfo) findWrites(fd *core.FuncDecl) []stateWrite {
	info := fd.Pkg.TypesInfo
	var out []stateWrite
	alias := map[types.Object]*types.Var{} // local var -> engine field it aliases
	fromEngine := func(e ast.Expr) *types.Var {
		fld, root := ei.engineFieldIn(info, e)
		if fld == nil || root == nil {
			if root != nil {
				if a, ok := alias[info.ObjectOf(root)]; ok {
					return a
				}
			}
			return nil
		}
		if !isParamOrRecv(fd, info, root) {
			return nil // engine allocated locally (constructor)
		}
		return fld
	}
	isRefType := func(t types.Type) bool {
		if t == nil {
			return false
		}
		switch t.Underlying().(type) {
		case *types.Map, *types.Slice, *types.Pointer:
			return true
		}
		return false
	}
	ast.Inspect(fd.Decl.Body, func(n ast.Node) bool {
		switch x := n.(type) {
		case *ast.AssignStmt:
			// alias definitions: v := pe.F[k]   /   v, ok := pe.F[k]
			if len(x.Rhs) == 1 {
				if fld := fromEngine(x.Rhs[0]); fld != nil {
					if id, ok := x.Lhs[0].(*ast.Ident); ok && id.Name != "_" && isRefType(info.TypeOf(id)) {
						alias[info.ObjectOf(id)] = fld
					}
				}
			}
			for i, l := range x.Lhs {
				l = ast.Unparen(l)
				if _, isIdent := l.(*ast.Ident); isIdent {
					continue // (re)binding a local, not a store through it
				}
				if fld := fromEngine(l); fld != nil {
					kind := "store"
					if _, ok := l.(*ast.IndexExpr); ok {
						kind = "map-insert"
					}
					if i < len(x.Rhs) {
						if call, ok := ast.Unparen(x.Rhs[i]).(*ast.CallExpr); ok && core.IsBuiltinCall(info, call, "append") {
							kind = "append"
						}
						// m[k] = make(map...): an empty inner container; readers iterate it like an absent one
						if call, ok := ast.Unparen(x.Rhs[i]).(*ast.CallExpr); ok && kind == "map-insert" && core.IsBuiltinCall(info, call, "make") && len(call.Args) == 1 {
							if _, isMap := info.TypeOf(call).Underlying().(*types.Map); isMap {
								continue
							}
						}
					}
					out = append(out, stateWrite{Node: x, Field: fld, Kind: kind})
				}
			}
		case *ast.CallExpr:
			if core.IsBuiltinCall(info, x, "delete") && len(x.Args) == 2 {
				if fld := fromEngine(x.Args[0]); fld != nil {
					out = append(out, stateWrite{Node: x, Field: fld, Kind: "delete", MapStr: core.ExprStr(x.Args[0]), KeyStr: core.ExprStr(x.Args[1])})
				}
			}
		case *ast.IncDecStmt:
			if fld := fromEngine(x.X); fld != nil {
				out = append(out, stateWrite{Node: x, Field: fld, Kind: "incdec"})
			}
		}
		return true
	})
	return out
}

// presenceGuarded recognises the idiom
//
//	if v, ok := m[k]; ok { ...invalidator... }
//	delete(m, k)
//
// the delete is a no-op on the path where ok is false.
func (ei *EngineInfo) presenceGuarded(fd *core.FuncDecl, w stateWrite, isInval func(*ast.CallExpr) bool) bool {
	if w.Kind != "delete" {
		return false
	}
	info := fd.Pkg.TypesInfo
	found := false
	ast.Inspect(fd.Decl.Body, func(n ast.Node) bool {
		ifs, ok := n.(*ast.IfStmt)
		if !ok || ifs.Init == nil || ifs.Pos() > w.Node.Pos() {
			return true
		}
		as, ok := ifs.Init.(*ast.AssignStmt)
		if !ok || len(as.Lhs) != 2 || len(as.Rhs) != 1 {
			return true
		}
		ix, ok := ast.Unparen(as.Rhs[0]).(*ast.IndexExpr)
		if !ok || core.ExprStr(ix.X) != w.MapStr || core.ExprStr(ix.Index) != w.KeyStr {
			return true
		}
		okID, isID := as.Lhs[1].(*ast.Ident)
		cond, isCondID := ast.Unparen(ifs.Cond).(*ast.Ident)
		if !isID || !isCondID || info.ObjectOf(okID) != info.ObjectOf(cond) {
			return true
		}
		for _, c := range core.CallsIn(info, ifs.Body, func(*types.Func) bool { return true }) {
			if isInval(c) {
				found = true
			}
		}
		return true
	})
	return found
}

// alwaysInvalidates: a module function every return of which is preceded by a full invalidation of the cache
// (wrappers such as deleteAdminNetworkPolicy, used for roll-back).
func (ei *EngineInfo) alwaysInvalidates(fn *types.Func) bool {
	if ei.wrapInval == nil {
		ei.wrapInval = map[*types.Func]bool{}
	}
	if v, ok := ei.wrapInval[fn]; ok {
		return v
	}
	ei.wrapInval[fn] = false
	fd := ei.P.ByObj[fn]
	if fd == nil {
		return false
	}
	info := fd.Pkg.TypesInfo
	w := facts.NewWalker(info)
	all := true
	exits := 0
	w.Transfer = func(st int, n ast.Node, f facts.Formula) int {
		if c, ok := n.(*ast.CallExpr); ok {
			if cal := core.Callee(info, c); cal != nil && (ei.FullInval[cal] || (cal != fn && ei.alwaysInvalidates(cal))) {
				return 1
			}
		}
		if as, ok := n.(*ast.AssignStmt); ok {
			for _, l := range as.Lhs {
				if f2 := core.FieldOf(info, l); f2 == ei.CacheField {
					return 1
				}
			}
		}
		return st
	}
	w.OnExit = func(st int, ret *ast.ReturnStmt, f facts.Formula) {
		if w.FuncLitDepth > 0 {
			return
		}
		exits++
		if st != 1 {
			all = false
		}
	}
	w.WalkBody(fd.Decl.Body, nil)
	ei.wrapInval[fn] = all && exits > 0
	return ei.wrapInval[fn]
}

// ---------------------------------------------------------------- E4a

// Frozen exceptions of E4a: construct -> reason.
var e4aExceptions = map[string]string{
	"netpol/eval.(*PolicyEngine).AddPodByNameAndNamespace writes podsMap":                                                                                   "the inserted ingress-controller pod is a fake pod without owner; keyPerConnection yields no key for a peer without owner, so nothing about it is ever cached; the function is on the list path only",
	"netpol/eval.(*PolicyEngine).insertNetworkPolicy writes netpolsMap, exit `return ‹result of GetPolicyRulesSelectorsAndUpdateExposureClusterWideConns›`": "infeasible exit: the exposure pre-scan evaluates the rule ports with dst == nil, and with a nil dst neither ruleConnections nor getPortsRange has an error return (rule E4a-scan checks exactly that); no input reaches this return, so no failing history can be shown",
}

// CacheInvalidation is rule E4a: every write to engine state that
// CheckIfAllowed reads is accompanied, on every path to a normal return, by an
// invalidation of the result cache.
func CacheInvalidation(p *core.Program, r *core.Report) {
	ei := ResolveEngine(p, r)
	if ei == nil {
		return
	}
	var rs []string
	for f := range ei.ReadSet {
		rs = append(rs, core.RefName(f))
	}
	sort.Strings(rs)
	r.Anchor("E4a read set of CheckIfAllowed (computed): " + strings.Join(rs, ", "))
	r.Extra["e4a_read_set"] = rs
	var inv []string
	for f := range ei.FullInval {
		inv = append(inv, core.FuncKey(f)+" (full)")
	}
	for f := range ei.PodInval {
		inv = append(inv, core.FuncKey(f)+" (pod-granular)")
	}
	sort.Strings(inv)
	r.Anchor("E4a invalidators (by role): " + strings.Join(inv, ", "))
	podsField := p.Field(core.PkgEval, "PolicyEngine", "podsMap")

	for _, fd := range p.FuncsIn(core.PkgEval) {
		writes := ei.findWrites(fd)
		byField := map[*types.Var][]stateWrite{}
		for _, w := range writes {
			if ei.ReadSet[w.Field] {
				byField[w.Field] = append(byField[w.Field], w)
			}
		}
		var fields []*types.Var
		for f := range byField {
			fields = append(fields, f)
		}
		sort.Slice(fields, func(i, j int) bool { return core.RefName(fields[i]) < core.RefName(fields[j]) })
		for _, fld := range fields {
			ei.checkWriter(fd, fld, byField[fld], fld == podsField, r)
		}
	}
}

const (
	stW = 1 // written
	stI = 2 // invalidated
)

func (ei *EngineInfo) checkWriter(fd *core.FuncDecl, fld *types.Var, writes []stateWrite, allowPodGranular bool, r *core.Report) {
	info := fd.Pkg.TypesInfo
	construct := fmt.Sprintf("%s writes %s", fd.Key(), core.RefName(fld))
	isInval := func(call *ast.CallExpr) bool {
		fn := core.Callee(info, call)
		if fn == nil {
			return false
		}
		if ei.FullInval[fn] || ei.alwaysInvalidates(fn) {
			return true
		}
		return allowPodGranular && ei.PodInval[fn]
	}
	wnodes := map[ast.Node]stateWrite{}
	for _, w := range writes {
		wnodes[w.Node] = w
	}
	guarded := map[ast.Node]bool{}
	for _, w := range writes {
		if ei.presenceGuarded(fd, w, isInval) {
			guarded[w.Node] = true
		}
	}
	w := facts.NewWalker(info)
	type badExit struct{ desc, pos string }
	var bads []badExit
	w.Transfer = func(st int, n ast.Node, f facts.Formula) int {
		if sw, ok := wnodes[n]; ok {
			if guarded[n] && st&stI == 0 {
				return st // delete of an absent key: no-op
			}
			_ = sw
			st |= stW
		}
		switch x := n.(type) {
		case *ast.CallExpr:
			if isInval(x) {
				st |= stI
			}
		case *ast.AssignStmt:
			// re-assignment of the cache field itself (fresh cache)
			for _, l := range x.Lhs {
				if f2 := core.FieldOf(info, l); f2 == ei.CacheField {
					st |= stI
				}
			}
		}
		return st
	}
	w.OnExit = func(st int, ret *ast.ReturnStmt, f facts.Formula) {
		if w.FuncLitDepth > 0 {
			return
		}
		if st&stW != 0 && st&stI == 0 {
			// error returns count too: a call that changed the state and then failed leaves the changed state behind
			pos := fd.Decl.End()
			desc := "end of function"
			if ret != nil {
				pos = ret.Pos()
				var rs []string
				for _, e := range ret.Results {
					rs = append(rs, StableResult(fd, e))
				}
				desc = "return " + strings.Join(rs, ", ")
			}
			for _, b := range bads {
				if b.desc == desc {
					return
				}
			}
			bads = append(bads, badExit{desc, ei.P.Pos(pos)})
		}
	}
	w.WalkBody(fd.Decl.Body, nil)
	var kinds []string
	for _, sw := range writes {
		kinds = append(kinds, sw.Kind+"@"+ei.P.Pos(sw.Node.Pos()))
	}
	pos := ei.P.Pos(writes[0].Node.Pos())
	if why, ok := e4aExceptions[construct]; ok && len(bads) > 0 {
		r.Add("E4a", construct, pos, core.Excepted, why)
		return
	}
	nBad := 0
	for _, b := range bads {
		c := construct + ", exit `" + b.desc + "`"
		if why, ok := e4aExceptions[c]; ok {
			r.Add("E4a", c, b.pos, core.Excepted, why)
			continue
		}
		nBad++
		r.Bad("E4a", c, b.pos,
			fmt.Sprintf("state read by CheckIfAllowed (%s) is written (%s) and the function returns at %s (`%s`) without invalidating the result cache: a result cached before this update can be served after it (an error return counts: the state stays changed)",
				core.RefName(fld), strings.Join(kinds, ", "), b.pos, b.desc),
			"entry: "+fd.Key(), "write: "+strings.Join(kinds, ", "), "return without invalidation: "+b.pos)
	}
	if nBad == 0 {
		r.OK("E4a", construct, pos, "every path from the write ("+strings.Join(kinds, ", ")+") to a return passes a cache invalidation")
	}
}

func exprList(es []ast.Expr) string {
	var out []string
	for _, e := range es {
		out = append(out, core.ExprStr(e))
	}
	return strings.Join(out, ", ")
}

// PreScanCannotFail is rule E4a-scan, the premise of the one per-exit exception of E4a: the exposure pre-scan of a
// NetworkPolicy (GetPolicyRulesSelectorsAndUpdateExposureClusterWideConns) has no reachable error: every error
// created in the functions it reaches is created under dst != nil, and the scan passes a nil dst.
func PreScanCannotFail(p *core.Program, r *core.Report, rule string) {
	scan := p.Func(core.PkgK8s, "NetworkPolicy", "GetPolicyRulesSelectorsAndUpdateExposureClusterWideConns")
	rc := p.Func(core.PkgK8s, "NetworkPolicy", "ruleConnections")
	if scan == nil || rc == nil {
		r.Lost(rule, "(*NetworkPolicy).GetPolicyRulesSelectorsAndUpdateExposureClusterWideConns / ruleConnections")
		return
	}
	reach := p.Reachable(scan.Obj)
	reachRC := p.Reachable(rc.Obj)
	// helpers whose only result is a freshly built error (netpolErr)
	isErrCtor := func(fn *types.Func) bool {
		sig := fn.Type().(*types.Signature)
		return p.IsModuleFunc(fn) && sig.Results().Len() == 1 && core.IsErrorType(sig.Results().At(0).Type()) && AlwaysReturnsError(p, fn)
	}
	n := 0
	for _, fd := range p.Funcs {
		if !reach[fd.Obj] && fd.Obj != scan.Obj {
			continue
		}
		info := fd.Pkg.TypesInfo
		// (1) calls of ruleConnections on the scan path pass a nil peer
		if !reachRC[fd.Obj] && fd.Obj != rc.Obj {
			for _, c := range core.CallsIn(info, fd.Decl.Body, func(fn *types.Func) bool { return fn == rc.Obj }) {
				n++
				r.Check(len(c.Args) == 2 && core.IsNil(info, c.Args[1]), rule, fd.Key()+": the pre-scan evaluates rule ports without a destination peer", p.Pos(c.Pos()), "ruleConnections(ports, nil)", "the pre-scan passes a destination peer to ruleConnections: named-port conversion errors become reachable, and with them the return of insertNetworkPolicy that skips the cache invalidation")
			}
			// no error is created outside ruleConnections' subtree
			ast.Inspect(fd.Decl.Body, func(nd ast.Node) bool {
				c, ok := nd.(*ast.CallExpr)
				if !ok {
					return true
				}
				if fn := core.Callee(info, c); fn != nil && !reachRC[fn] && fn != rc.Obj && AlwaysReturnsError(p, fn) && !p.IsModuleFunc(fn) {
					n++
					r.Bad(rule, fd.Key()+": creates no error on the pre-scan path", p.Pos(c.Pos()), "an error is created on the exposure pre-scan path ("+core.ExprStr(c.Fun)+"): the return of insertNetworkPolicy that skips the cache invalidation becomes reachable")
				}
				return true
			})
			continue
		}
		// (2) inside ruleConnections' subtree an error is created only where a destination peer is known non-nil
		if isErrCtor(fd.Obj) {
			continue // an error-constructor helper: judged where it is called
		}
		sig := fd.Obj.Type().(*types.Signature)
		var dst *types.Var
		for i := 0; i < sig.Params().Len(); i++ {
			if core.TypeIs(sig.Params().At(i).Type(), core.PkgK8s, "Peer") {
				dst = sig.Params().At(i)
			}
		}
		w := facts.NewWalker(info)
		w.OnExpr = func(e ast.Expr, f facts.Formula) {
			c, ok := e.(*ast.CallExpr)
			if !ok {
				return
			}
			fn := core.Callee(info, c)
			if fn == nil || !AlwaysReturnsError(p, fn) {
				return
			}
			if p.IsModuleFunc(fn) && (reachRC[fn] || fn == rc.Obj) && !isErrCtor(fn) {
				return // propagation, judged at its own creation sites
			}
			n++
			ok2 := false
			if dst != nil {
				ok2 = facts.Entails(f, facts.Not{X: facts.Atom("nil:" + w.PathOfVar(dst))})
			}
			r.Check(ok2, rule, fd.Key()+": an error is created only when a destination peer is given", p.Pos(c.Pos()), "under dst != nil", "an error can be created with a nil destination peer ("+core.ExprStr(c.Fun)+"): the exposure pre-scan can fail, so the return of insertNetworkPolicy that skips the cache invalidation is reachable")
		}
		w.WalkBody(fd.Decl.Body, nil)
	}
	r.RuleCounts[rule] = n
	r.Floor(rule, 2)
}

// ---------------------------------------------------------------- E4b

// SortedTypestate is rule E4b: the slice of admin network policies that the
// query loops scan in order is sorted by priority whenever an exported entry
// of package eval returns normally after adding to it.
func SortedTypestate(p *core.Program, r *core.Report) {
	ei := ResolveEngine(p, r)
	if ei == nil {
		return
	}
	fld := p.Field(core.PkgEval, "PolicyEngine", "sortedAdminNetpols")
	if fld == nil {
		// role-based fallback: the engine field of slice type over *k8s.AdminNetworkPolicy
		st := ei.Engine.Underlying().(*types.Struct)
		for i := 0; i < st.NumFields(); i++ {
			if sl, ok := st.Field(i).Type().Underlying().(*types.Slice); ok && core.TypeIs(sl.Elem(), core.PkgK8s, "AdminNetworkPolicy") {
				fld = st.Field(i)
			}
		}
	}
	if fld == nil {
		r.Lost("E4b", "engine field holding the priority-ordered admin network policies")
		return
	}
	// readers that rely on the order: range loops over the field in functions reachable from the two query entries
	listEntry := p.Func(core.PkgEval, "PolicyEngine", "AllAllowedConnectionsBetweenWorkloadPeers")
	roots := []*types.Func{ei.Query.Obj}
	if listEntry != nil {
		roots = append(roots, listEntry.Obj)
	}
	nReaders := 0
	for fn := range p.Reachable(roots...) {
		fd := p.ByObj[fn]
		if fd == nil {
			continue
		}
		ast.Inspect(fd.Decl.Body, func(n ast.Node) bool {
			if rs, ok := n.(*ast.RangeStmt); ok {
				if f2 := core.FieldOf(fd.Pkg.TypesInfo, rs.X); f2 == fld {
					nReaders++
					r.OK("E4b-reader", fd.Key()+" scans "+core.RefName(fld)+" in order", p.Pos(rs.Pos()), "order-dependent reader found (first match wins); relies on the sorted state")
				}
			}
			return true
		})
	}
	r.Floor("E4b-reader", 2)

	// re-establishers: functions of eval that sort the field in place
	sorters := map[*types.Func]bool{}
	for _, fd := range p.FuncsIn(core.PkgEval) {
		info := fd.Pkg.TypesInfo
		ast.Inspect(fd.Decl.Body, func(n ast.Node) bool {
			if call, ok := n.(*ast.CallExpr); ok && len(call.Args) > 0 {
				if fn := core.Callee(info, call); fn != nil && fn.Pkg() != nil && (fn.Pkg().Path() == "sort" || fn.Pkg().Path() == "slices") && strings.HasPrefix(core.RefName(fn), "S") {
					if f2 := FieldBehind(fd, call.Args[0]); f2 == fld {
						sorters[fd.Obj] = true
					}
				}
			}
			return true
		})
	}
	// ... and functions that sort a slice parameter in place, at the call sites that hand them the field
	paramSorters := map[*types.Func]int{}
	for _, fd := range p.FuncsIn(core.PkgEval) {
		info := fd.Pkg.TypesInfo
		sig := fd.Obj.Type().(*types.Signature)
		ast.Inspect(fd.Decl.Body, func(n ast.Node) bool {
			if call, ok := n.(*ast.CallExpr); ok && len(call.Args) > 0 {
				if fn := core.Callee(info, call); fn != nil && fn.Pkg() != nil && (fn.Pkg().Path() == "sort" || fn.Pkg().Path() == "slices") && strings.HasPrefix(core.RefName(fn), "S") {
					if id, ok := ast.Unparen(call.Args[0]).(*ast.Ident); ok {
						for i := 0; i < sig.Params().Len(); i++ {
							if info.ObjectOf(id) == sig.Params().At(i) && sameType(sig.Params().At(i).Type(), fld.Type()) {
								paramSorters[fd.Obj] = i
							}
						}
					}
				}
			}
			return true
		})
	}
	sortsField := func(fd *core.FuncDecl, call *ast.CallExpr, fn *types.Func) bool {
		i, ok := paramSorters[fn]
		return ok && i < len(call.Args) && !call.Ellipsis.IsValid() && FieldBehind(fd, call.Args[i]) == fld
	}
	if len(sorters) == 0 {
		for _, fd := range p.FuncsIn(core.PkgEval) {
			fd := fd
			ast.Inspect(fd.Decl.Body, func(n ast.Node) bool {
				if call, ok := n.(*ast.CallExpr); ok {
					if fn := core.Callee(fd.Pkg.TypesInfo, call); fn != nil && sortsField(fd, call, fn) {
						r.Anchor("E4b re-establisher: " + core.FuncKey(fn) + " applied to the field in " + fd.Key())
						sorters[nil] = true
					}
				}
				return true
			})
		}
	}
	if len(sorters) == 0 {
		r.Lost("E4b", "a function of package eval that sorts "+core.RefName(fld))
		return
	}
	delete(sorters, nil)
	for s := range sorters {
		r.Anchor("E4b re-establisher: " + core.FuncKey(s))
	}

	// breaks(F): F may return normally with an element added and the slice not re-sorted
	breaks := map[*types.Func]string{} // func -> witness
	funcs := p.FuncsIn(core.PkgEval)
	isAppendWrite := func(fd *core.FuncDecl, n ast.Node) bool {
		as, ok := n.(*ast.AssignStmt)
		if !ok {
			return false
		}
		info := fd.Pkg.TypesInfo
		for i, l := range as.Lhs {
			if core.FieldOf(info, l) != fld {
				continue
			}
			_, root := ei.engineFieldIn(info, l)
			if root == nil || !isParamOrRecv(fd, info, root) {
				continue
			}
			if i >= len(as.Rhs) {
				return true
			}
			rhs := ast.Unparen(as.Rhs[i])
			if call, ok := rhs.(*ast.CallExpr); ok {
				if core.IsBuiltinCall(info, call, "make") {
					continue // reset to empty
				}
				if core.IsBuiltinCall(info, call, "append") {
					// removal idiom append(s[:i], s[i+1:]...) preserves order
					if len(call.Args) == 2 && call.Ellipsis.IsValid() {
						a, aok := ast.Unparen(call.Args[0]).(*ast.SliceExpr)
						b, bok := ast.Unparen(call.Args[1]).(*ast.SliceExpr)
						if aok && bok && core.FieldOf(info, a.X) == fld && core.FieldOf(info, b.X) == fld {
							continue
						}
					}
					return true
				}
			}
			if core.IsNil(info, rhs) {
				continue
			}
			return true
		}
		return false
	}
	for changed := true; changed; {
		changed = false
		for _, fd := range funcs {
			if _, done := breaks[fd.Obj]; done {
				continue
			}
			info := fd.Pkg.TypesInfo
			w := facts.NewWalker(info)
			witness := ""
			cause := ""
			w.Transfer = func(st int, n ast.Node, f facts.Formula) int {
				if isAppendWrite(fd, n) {
					cause = "append at " + p.Pos(n.Pos())
					return 1
				}
				if call, ok := n.(*ast.CallExpr); ok {
					fn := core.Callee(info, call)
					for _, g := range p.Impls(fn) {
						if sorters[g] || sortsField(fd, call, g) {
							return 0
						}
					}
					for _, g := range p.Impls(fn) {
						if wit, ok := breaks[g]; ok {
							cause = "call of " + core.FuncKey(g) + " at " + p.Pos(call.Pos()) + " <- " + wit
							return 1
						}
					}
				}
				return st
			}
			w.OnExit = func(st int, ret *ast.ReturnStmt, f facts.Formula) {
				if st == 1 && !IsErrorReturn(p, w, fd.Obj, ret, f) && witness == "" {
					witness = cause
				}
			}
			w.WalkBody(fd.Decl.Body, nil)
			if witness != "" {
				breaks[fd.Obj] = witness
				changed = true
			}
		}
	}
	// verdict at the exported entries (and at anything called from outside the package)
	nWriters := 0
	for _, fd := range funcs {
		hasAppend := false
		ast.Inspect(fd.Decl.Body, func(n ast.Node) bool {
			if isAppendWrite(fd, n) {
				hasAppend = true
			}
			return true
		})
		if hasAppend {
			nWriters++
		}
		if !fd.Obj.Exported() {
			if hasAppend {
				if _, b := breaks[fd.Obj]; !b {
					r.OK("E4b", fd.Key()+" adds to "+core.RefName(fld), p.Pos(fd.Decl.Pos()), "the addition is followed by the priority sort on every normal return of the function")
				}
			}
			continue
		}
		if wit, b := breaks[fd.Obj]; b {
			r.Bad("E4b", fd.Key()+" can return with "+core.RefName(fld)+" unsorted", p.Pos(fd.Decl.Pos()),
				"an admin network policy is added and the exported entry returns normally without the priority sort having run: the first-match query loops then scan the policies in insertion order, not priority order",
				"entry: "+fd.Key(), "cause: "+wit)
		} else if hasAppend || reachesAny(p, fd, func(g *types.Func) bool {
			gd := p.ByObj[g]
			if gd == nil {
				return false
			}
			found := false
			ast.Inspect(gd.Decl.Body, func(n ast.Node) bool {
				if isAppendWrite(gd, n) {
					found = true
				}
				return true
			})
			return found
		}) {
			r.OK("E4b", fd.Key()+" keeps "+core.RefName(fld)+" sorted", p.Pos(fd.Decl.Pos()), "every normal return after an addition has passed the priority sort")
		}
	}
	r.RuleCounts["E4b-writer"] = nWriters
	r.Floor("E4b-writer", 1)
	r.Floor("E4b", 2)
}

func reachesAny(p *core.Program, fd *core.FuncDecl, pred func(*types.Func) bool) bool {
	for fn := range p.Reachable(fd.Obj) {
		if pred(fn) {
			return true
		}
	}
	return false
}

func sameType(a, b types.Type) bool { return types.Identical(a, b) }
