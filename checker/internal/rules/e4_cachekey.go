package rules

import (
	"fmt"
	"go/ast"
	"go/token"
	"go/types"
	"sort"
	"strings"

	"npverif/internal/core"
	"npverif/internal/facts"
)

// CacheWriteDiscipline is C15-d (stores): a verdict is stored in the result
// cache only by the function that looked the key up, under the same key, and
// the stored value is exactly what that function then returns with a nil
// error. (A per-direction or otherwise partial verdict stored under the
// connection key leaks into later queries when the computation is abandoned
// in between.)
func CacheWriteDiscipline(p *core.Program, r *core.Report, rule string) {
	add := p.Func(core.PkgEval, "evalCache", "addConnectionResult")
	has := p.Func(core.PkgEval, "evalCache", "hasConnectionResult")
	if add == nil || has == nil {
		r.Lost(rule, "(*evalCache).addConnectionResult / hasConnectionResult")
		return
	}
	lookups := CallsTo(p, has.Obj)
	lookupFns := map[*types.Func][]string{}
	for _, cs := range lookups {
		var args []string
		for _, a := range cs.Call.Args {
			args = append(args, core.ExprStr(a))
		}
		lookupFns[cs.In.Obj] = args
	}
	r.Check(len(lookups) == 1, rule, "netpol/eval: the result cache is consulted at one place", "", fmt.Sprintf("%d lookup sites", len(lookups)), fmt.Sprintf("%d lookup sites of the result cache", len(lookups)))
	n := 0
	for _, cs := range CallsTo(p, add.Obj) {
		n++
		fd := cs.In
		info := fd.Pkg.TypesInfo
		construct := fmt.Sprintf("%s: stores %s in the result cache", fd.Key(), core.ExprStr(cs.Call.Args[len(cs.Call.Args)-1]))
		pos := p.Pos(cs.Call.Pos())
		want, isLookupFn := lookupFns[fd.Obj]
		if !isLookupFn {
			r.Bad(rule, construct, pos, "a verdict is stored in the result cache by a function other than the one that looks the key up (CheckIfAllowed): what it stores is a partial verdict (one direction, one policy layer) under the key of the whole connection; when the rest of the computation returns an error, or another goroutine asks in between, a later identical query is answered from the partial verdict")
			continue
		}
		var got []string
		for _, a := range cs.Call.Args[:len(cs.Call.Args)-1] {
			got = append(got, core.ExprStr(a))
		}
		if strings.Join(got, ",") != strings.Join(want, ",") {
			r.Bad(rule, construct, pos, "the verdict is stored under ("+strings.Join(got, ",")+") but was looked up under ("+strings.Join(want, ",")+")")
			continue
		}
		// after the store, every path to a return returns the stored value with a nil error (no other return, no
		// second store in between)
		val := cs.Call.Args[len(cs.Call.Args)-1]
		ok := true
		why := ""
		seenExit := false
		w := facts.NewWalker(info)
		w.Transfer = func(st int, n ast.Node, f facts.Formula) int {
			if n == ast.Node(cs.Call) {
				return 1
			}
			return st
		}
		w.OnExit = func(st int, ret *ast.ReturnStmt, f facts.Formula) {
			if st != 1 || w.FuncLitDepth > 0 {
				return
			}
			seenExit = true
			if ret == nil || len(ret.Results) != 2 || !core.IsNil(info, ret.Results[1]) {
				ok = false
				why = "after the store the function can return something other than (stored value, nil)"
				return
			}
			if core.ExprStr(ret.Results[0]) != core.ExprStr(val) {
				ok = false
				why = "the function stores " + core.ExprStr(val) + " but returns " + core.ExprStr(ret.Results[0])
			}
		}
		w.WalkBody(fd.Decl.Body, nil)
		if !seenExit {
			ok = false
			why = "no return follows the store"
		}
		// the key variables are not reassigned between lookup and store (parameters and single-assignment locals)
		r.Check(ok, rule, construct, pos, "stored under the lookup key and returned as the answer", why)
	}
	r.RuleCounts[rule+"-stores"] = n
	r.Floor(rule+"-stores", 1) // the two stores of today (negative egress verdict, final verdict) become one when the uncached computation is extracted
	// a hit returns the cached value unchanged
	for _, cs := range lookups {
		fd := cs.In
		info := fd.Pkg.TypesInfo
		as, _ := enclosingStmt(fd.Decl.Body, cs.Call.Pos()).(*ast.AssignStmt)
		ok := false
		if as != nil && len(as.Lhs) == 2 {
			hit, _ := as.Lhs[0].(*ast.Ident)
			val, _ := as.Lhs[1].(*ast.Ident)
			if hit != nil && val != nil {
				ast.Inspect(fd.Decl.Body, func(n ast.Node) bool {
					ifs, isIf := n.(*ast.IfStmt)
					if !isIf || ifs.Pos() < as.End() {
						return true
					}
					if id, isID := ast.Unparen(ifs.Cond).(*ast.Ident); isID && info.ObjectOf(id) == info.ObjectOf(hit) {
						if ret := LastReturn(ifs.Body); ret != nil && len(ret.Results) == 2 {
							if rid, isRID := ast.Unparen(ret.Results[0]).(*ast.Ident); isRID && info.ObjectOf(rid) == info.ObjectOf(val) && core.IsNil(info, ret.Results[1]) {
								ok = true
							}
						}
					}
					return true
				})
			}
		}
		r.Check(ok, rule, fd.Key()+": a cache hit returns the cached verdict unchanged", p.Pos(cs.Call.Pos()), "", "the cached value is transformed or ignored on a hit")
	}
}

// nextStmt returns the statement following st in its enclosing block (nil if last).
func nextStmt(body ast.Node, st ast.Stmt) ast.Stmt {
	var out ast.Stmt
	ast.Inspect(body, func(n ast.Node) bool {
		var list []ast.Stmt
		switch x := n.(type) {
		case *ast.BlockStmt:
			list = x.List
		case *ast.CaseClause:
			list = x.Body
		}
		for i, s := range list {
			if s == st && i+1 < len(list) {
				out = list[i+1]
			}
		}
		return true
	})
	return out
}

// CacheKeyShape is C15-d (key): the cache key is built from everything that
// identifies the two pods' label state, in a fixed order, and the label hash
// is an entry-delimited encoding of the whole label map.
func CacheKeyShape(p *core.Program, r *core.Report, rule string) {
	kf := p.Func(core.PkgEval, "evalCache", "keyPerConnection")
	okf := p.Func(core.PkgEval, "", "getPodOwnerKey")
	vf := p.Func(core.PkgK8s, "", "variantFromLabelsMap")
	if kf == nil || okf == nil || vf == nil {
		r.Lost(rule, "keyPerConnection / getPodOwnerKey / variantFromLabelsMap")
		return
	}
	// 1. keyPerConnection: Join([ownerKey(src), ownerKey(dst), protocol, port], sep)
	{
		info := kf.Pkg.TypesInfo
		sig := kf.Obj.Type().(*types.Signature)
		ok := false
		got := ""
		ast.Inspect(kf.Decl.Body, func(n ast.Node) bool {
			c, isC := n.(*ast.CallExpr)
			if !isC {
				return true
			}
			fn := core.Callee(info, c)
			if fn == nil || fn.Pkg() == nil || fn.Pkg().Path() != "strings" || core.RefName(fn) != "Join" {
				return true
			}
			cl, isCl := ast.Unparen(c.Args[0]).(*ast.CompositeLit)
			if !isCl {
				return true
			}
			var parts []string
			for _, el := range cl.Elts {
				parts = append(parts, originOfKeyPart(kf, el, okf.Obj))
			}
			got = strings.Join(parts, ",")
			want := fmt.Sprintf("owner(%s),owner(%s),%s,%s", core.RefName(sig.Params().At(0)), core.RefName(sig.Params().At(1)), core.RefName(sig.Params().At(2)), core.RefName(sig.Params().At(3)))
			if got == want {
				ok = true
			}
			return true
		})
		r.Check(ok, rule, kf.Key()+": the key is (owner key of src, owner key of dst, protocol, port), in this order", p.Pos(kf.Decl.Pos()), got, "the cache key is built from "+got+": two different queries can share a key (or src/dst are swapped)")
		// a key exists only for two pods that both have an owner: the label variant, the part of the key that follows the
		// pod's labels, is set only together with an owner; an owner-less pod would keep its key across a label change
		var join *ast.CallExpr
		ast.Inspect(kf.Decl.Body, func(n ast.Node) bool {
			if c, isC := n.(*ast.CallExpr); isC {
				if fn := core.Callee(info, c); fn != nil && fn.Pkg() != nil && fn.Pkg().Path() == "strings" && core.RefName(fn) == "Join" {
					join = c
				}
			}
			return true
		})
		okGuard := false
		txt := ""
		if join != nil {
			fm, _, found := FactsAt(kf, join, UnfoldingEqAtomizer(info, kf.Decl.Body))
			if found {
				txt = facts.StripVersions(facts.String(fm))
				hasOwner := map[string]bool{}
				for _, a := range facts.Atoms(fm) {
					st := facts.StripVersions(a)
					for i := 0; i < 2; i++ {
						pn := core.RefName(sig.Params().At(i))
						if strings.HasPrefix(st, "eq:"+pn+".") && strings.HasSuffix(st, ".Owner.Name==\"\"") && facts.Entails(fm, facts.Not{X: facts.Atom(a)}) {
							hasOwner[pn] = true
						}
					}
				}
				okGuard = len(hasOwner) == 2
			}
		}
		r.Check(okGuard, rule, kf.Key()+": a key is built only when both pods have an owner", p.Pos(kf.Decl.Pos()), "Owner.Name != \"\" for src and dst", "a cache key is built for a pod without an owner ("+txt+"): its label variant is never set (PodFromCoreObject computes it only together with an owner), so the key does not change when the pod is re-inserted with other labels and the verdict cached before the update is served after it")
	}
	// 2. getPodOwnerKey reads namespace, owner name and label variant
	{
		info := okf.Pkg.TypesInfo
		reads := map[string]bool{}
		ast.Inspect(okf.Decl.Body, func(n ast.Node) bool {
			if se, ok := n.(*ast.SelectorExpr); ok {
				if f := core.FieldOf(info, se); f != nil {
					reads[core.RefName(f)] = true
				}
			}
			return true
		})
		ok := reads["Namespace"] && reads["Name"] && reads["Variant"]
		r.Check(ok, rule, okf.Key()+": the owner key holds namespace, owner name and label variant", p.Pos(okf.Decl.Pos()), fmt.Sprint(sortedKeys(reads)), "the owner key no longer contains namespace, owner name and label variant: pods with different labels (or of different namespaces) share cached verdicts")
	}
	// 3. Owner.Variant is only ever the hash of the labels copied into the same pod
	{
		n := 0
		for _, fd := range p.Funcs {
			info := fd.Pkg.TypesInfo
			for _, fw := range FieldWrites(info, fd.Decl.Body) {
				if fw.Owner != "Owner" || core.RefName(fw.Field) != "Variant" {
					continue
				}
				n++
				okA := false
				src := ""
				if nm, c := callName(info, ResolveLocal(info, fd.Decl.Body, fw.Value)); nm == "variantFromLabelsMap" && len(c.Args) == 1 {
					src = core.ExprStr(c.Args[0])
					// the same labels expression is ranged over to fill the pod's Labels in this function
					// (a copy loop, maps.Copy(<pod>.Labels, src), or the pod's Labels being src itself)
					ast.Inspect(fd.Decl.Body, func(m ast.Node) bool {
						if rs, isRs := m.(*ast.RangeStmt); isRs && core.ExprStr(rs.X) == src {
							okA = true
						}
						if cc, isC := m.(*ast.CallExpr); isC && len(cc.Args) == 2 {
							if fn := core.Callee(info, cc); fn != nil && fn.Pkg() != nil && fn.Pkg().Path() == "maps" && fn.Name() == "Copy" && core.ExprStr(cc.Args[1]) == src && fieldPathEndsWith(info, cc.Args[0], "Pod", "Labels") {
								okA = true
							}
						}
						if a2, isA := m.(*ast.AssignStmt); isA && len(a2.Lhs) == 1 && len(a2.Rhs) == 1 && fieldPathEndsWith(info, a2.Lhs[0], "Pod", "Labels") && core.ExprStr(a2.Rhs[0]) == src {
							okA = true
						}
						return true
					})
					// ... or the pod's Labels are what a function of the module makes of that same expression (a copy helper)
					for _, lw := range FieldWrites(info, fd.Decl.Body) {
						if lw.Owner != "Pod" || core.RefName(lw.Field) != "Labels" {
							continue
						}
						if core.ExprStr(lw.Value) == src {
							okA = true
						}
						if c2, isC := ast.Unparen(lw.Value).(*ast.CallExpr); isC && len(c2.Args) == 1 && p.ByObj[core.Callee(info, c2)] != nil && core.ExprStr(c2.Args[0]) == src {
							okA = true
						}
					}
				}
				r.Check(okA, rule, fd.Key()+": the label variant is the hash of the labels given to the same pod", p.Pos(fw.At.Pos()), "variantFromLabelsMap("+src+")", "Owner.Variant is set from something other than the hash of the pod's own labels")
			}
		}
		r.RuleCounts[rule+"-variant-writes"] = n
		r.Floor(rule+"-variant-writes", 2)
	}
	// 4. the hash input is an entry-delimited encoding of the whole map
	{
		info := vf.Pkg.TypesInfo
		prm := vf.Obj.Type().(*types.Signature).Params().At(0)
		whole := false
		ranges := false
		var pieces, seps int
		isParam := func(e ast.Expr) bool {
			id, ok := ast.Unparen(e).(*ast.Ident)
			return ok && info.ObjectOf(id) == prm
		}
		ast.Inspect(vf.Decl.Body, func(n ast.Node) bool {
			switch x := n.(type) {
			case *ast.RangeStmt:
				if isParam(x.X) {
					ranges = true
				}
			case *ast.IndexExpr:
				if isParam(x.X) {
					ranges = true
				}
			case *ast.CallExpr:
				fn := core.Callee(info, x)
				if fn == nil || fn.Pkg() == nil {
					return true
				}
				full := fn.Pkg().Path() + "." + core.RefName(fn)
				switch full {
				case "fmt.Sprintf", "fmt.Sprint", "fmt.Sprintln", "encoding/json.Marshal", "fmt.Fprint", "fmt.Fprintf":
					for _, a := range x.Args {
						if isParam(a) {
							whole = true
						}
					}
				}
				// the label library's canonical text of a whole set: labels.Set(m).String() / labels.FormatLabels(m) -
				// sorted k=v entries joined by commas, and neither '=' nor ',' can occur in a label key or value
				if strings.HasSuffix(fn.Pkg().Path(), "apimachinery/pkg/labels") {
					if core.RefName(fn) == "FormatLabels" {
						for _, a := range x.Args {
							if isParam(a) {
								whole = true
							}
						}
					}
					if sel, ok := ast.Unparen(x.Fun).(*ast.SelectorExpr); ok && core.RefName(fn) == "String" {
						recv := ast.Unparen(ResolveLocal(info, vf.Decl.Body, sel.X))
						if c, isC := recv.(*ast.CallExpr); isC && core.IsConversion(info, c) && len(c.Args) == 1 && isParam(c.Args[0]) {
							if core.TypeIs(info.TypeOf(c), fn.Pkg().Path(), "Set") {
								whole = true
							}
						}
					}
				}
				// pieces written one by one: Write / WriteString / io.WriteString
				if core.RefName(fn) == "Write" || core.RefName(fn) == "WriteString" {
					for _, a := range x.Args {
						a = ast.Unparen(a)
						if c, ok := a.(*ast.CallExpr); ok && core.IsConversion(info, c) && len(c.Args) == 1 {
							a = ast.Unparen(c.Args[0])
						}
						if tv := info.Types[a]; tv.Value != nil {
							seps++
						} else if cl, ok := a.(*ast.CompositeLit); ok && len(cl.Elts) > 0 {
							seps++
						} else {
							pieces++
						}
					}
				}
			case *ast.BinaryExpr:
				if x.Op == token.ADD {
					if tv := info.Types[x]; tv.Type != nil {
						if b, ok := tv.Type.Underlying().(*types.Basic); ok && b.Kind() == types.String && tv.Value == nil {
							for _, side := range []ast.Expr{x.X, x.Y} {
								if info.Types[side].Value != nil {
									seps++
								} else if _, isBin := ast.Unparen(side).(*ast.BinaryExpr); !isBin {
									pieces++
								}
							}
						}
					}
				}
			}
			return true
		})
		construct := vf.Key() + ": the hashed text is an entry-delimited encoding of the whole label map"
		switch {
		case whole && !ranges:
			r.OK(rule, construct, p.Pos(vf.Decl.Pos()), "the map is formatted as a whole (fmt / json), which delimits keys, values and entries")
		case ranges && pieces > 0 && seps >= pieces:
			r.OK(rule, construct, p.Pos(vf.Decl.Pos()), fmt.Sprintf("hand-written encoding with %d pieces and %d constant separators", pieces, seps))
		case ranges:
			r.Bad(rule, construct, p.Pos(vf.Decl.Pos()), fmt.Sprintf("the labels are fed to the hash piece by piece (%d pieces) with %d constant separators: the concatenation k1v1k2v2... is not injective ({app: backendtierdb} and {app: backend, tier: db} collide), so pods whose labels differ share a cache key and an update that changes labels keeps serving the old verdict", pieces, seps))
		default:
			r.Bad(rule, construct, p.Pos(vf.Decl.Pos()), "the result does not depend on the whole label map")
		}
	}
	_ = sort.Strings
	_ = facts.String
}

// originOfKeyPart renders one element of the key list: a parameter name, or owner(<peer param>) when the element is
// (a local defined as) getPodOwnerKey(<peer>.GetPeerPod()).
func originOfKeyPart(fd *core.FuncDecl, e ast.Expr, ownerKey *types.Func) string {
	info := fd.Pkg.TypesInfo
	e = ast.Unparen(e)
	sig := fd.Obj.Type().(*types.Signature)
	if id, ok := e.(*ast.Ident); ok {
		for i := 0; i < sig.Params().Len(); i++ {
			if info.ObjectOf(id) == sig.Params().At(i) {
				return id.Name
			}
		}
		if d, _ := defOf(fd, id); d != nil {
			return originOfKeyPart(fd, d, ownerKey)
		}
		return "?" + id.Name
	}
	if c, ok := e.(*ast.CallExpr); ok && core.Callee(info, c) == ownerKey && len(c.Args) == 1 {
		// the pod may be named first (srcPod := src.GetPeerPod()): it stands for that expression
		if rid := core.RootIdent(ResolveLocal(info, fd.Decl.Body, c.Args[0])); rid != nil {
			return "owner(" + rid.Name + ")"
		}
	}
	return "?" + core.ExprStr(e)
}

// CacheInvalidationOnLastPod is C15-inv: when a pod is removed from the cache's owner index, the cached verdicts of its
// owner are invalidated unless the owner is KNOWN to still have pods. Path states over deletePod: an exit that has not
// passed the invalidation must be on a path that established a non-empty pod set of that owner - "the owner is not in
// the index" is not such a path (the index is reset whenever a policy changes, while the pods stay in the engine).
func CacheInvalidationOnLastPod(p *core.Program, r *core.Report, rule string) {
	fd := p.Func(core.PkgEval, "evalCache", "deletePod")
	inv := p.Func(core.PkgEval, "evalCache", "deleteWorkload")
	idx := p.Field(core.PkgEval, "evalCache", "ownerToPods")
	if fd == nil || idx == nil {
		r.Lost(rule, "(*evalCache).deletePod / ownerToPods")
		return
	}
	info := fd.Pkg.TypesInfo
	// the invalidation: a call of deleteWorkload, or (when it was inlined) a Remove on the lru cache
	isInvalidation := func(c *ast.CallExpr) bool {
		fn := core.Callee(info, c)
		if fn == nil {
			return false
		}
		if inv != nil && inv != fd && fn == inv.Obj {
			return true
		}
		return fn.Name() == "Remove" || fn.Name() == "Purge"
	}
	w := facts.NewWalker(info)
	nonEmptyKnown := func(f facts.Formula) bool {
		for _, a := range facts.Atoms(f) {
			if !strings.HasPrefix(a, "empty:") || !facts.Entails(f, facts.MkNot(facts.Atom(a))) {
				continue
			}
			// the emptiness fact is about an entry of the owner index (directly, or through a local alias)
			path := facts.StripVersions(strings.TrimPrefix(a, "empty:"))
			if strings.Contains(path, "."+core.RefName(idx)+"[") {
				return true
			}
			if o := objNamed(fd, path); o != nil {
				if id := identOf(fd, o); id != nil {
					if strings.Contains(Unfold(info, fd.Decl.Body, id), "."+core.RefName(idx)+"[") {
						return true
					}
					// v, ok := idx[k]
					if d, _ := defOf(fd, id); d != nil && strings.Contains(core.ExprStr(d), "."+core.RefName(idx)+"[") {
						return true
					}
				}
			}
		}
		return false
	}
	// 0: not invalidated, nothing known; 1: invalidated; 2: the owner is known to have pods left
	w.Transfer = func(st int, n ast.Node, f facts.Formula) int {
		if c, ok := n.(*ast.CallExpr); ok && isInvalidation(c) {
			return 1
		}
		// the inlined form: the sweep over the cache's keys (whether or not any key matches)
		if rs, ok := n.(*ast.RangeStmt); ok && strings.Contains(Unfold(info, fd.Decl.Body, rs.X), ".Keys()") {
			return 1
		}
		return st
	}
	w.Refine = func(st int, f facts.Formula) int {
		if st == 0 && nonEmptyKnown(f) {
			return 2
		}
		return st
	}
	bad := ""
	nExit := 0
	w.OnExit = func(st int, ret *ast.ReturnStmt, f facts.Formula) {
		if w.FuncLitDepth > 0 {
			return
		}
		nExit++
		if st == 0 && !nonEmptyKnown(f) && facts.Satisfiable(f) && bad == "" {
			pos := p.Pos(fd.Decl.End())
			if ret != nil {
				pos = p.Pos(ret.Pos())
			}
			bad = "the exit at " + pos + " (path: " + facts.StripVersions(facts.String(f)) + ")"
		}
	}
	w.WalkBody(fd.Decl.Body, nil)
	r.Check(bad == "" && nExit > 0, rule, fd.Key()+": the owner's cached verdicts are invalidated unless the owner is known to have pods left", p.Pos(fd.Decl.Pos()), "every exit either passed the invalidation or knows a non-empty pod set of the owner",
		"a pod is removed without invalidating its owner's cached verdicts and without knowing that the owner still has pods: "+bad+" - after a policy change reset the owner index, deleting the workload's last pod leaves its verdicts in the cache, and a replacement workload of the same owner and labels is answered from them")
}

// identOf returns some identifier of fd that denotes obj.
func identOf(fd *core.FuncDecl, obj types.Object) *ast.Ident {
	var out *ast.Ident
	ast.Inspect(fd.Decl, func(n ast.Node) bool {
		if id, ok := n.(*ast.Ident); ok && out == nil && fd.Pkg.TypesInfo.ObjectOf(id) == obj {
			out = id
		}
		return out == nil
	})
	return out
}
