package rules

import (
	"go/ast"
	"go/types"
	"sort"
	"strings"

	"npverif/internal/core"
)

// E6 — spec-field coverage: which fields of the external API structs are read
// by functions reachable from an entry point.

// FieldReadsFrom returns "Type.Field" for every field of an API struct read
// (selected in an expression, not merely set in a literal) in a function
// reachable from the roots, mapped to one position where it is read.
func FieldReadsFrom(p *core.Program, roots ...*types.Func) map[string]string {
	out := map[string]string{}
	for fn := range p.Reachable(roots...) {
		fd := p.ByObj[fn]
		if fd == nil {
			continue
		}
		for k, pos := range fieldReadsIn(p, fd) {
			if _, ok := out[k]; !ok {
				out[k] = pos
			}
		}
	}
	return out
}

func fieldReadsIn(p *core.Program, fd *core.FuncDecl) map[string]string {
	out := map[string]string{}
	info := fd.Pkg.TypesInfo
	// selectors that are pure assignment targets are writes, not reads
	lhs := map[ast.Expr]bool{}
	ast.Inspect(fd.Decl.Body, func(n ast.Node) bool {
		if as, ok := n.(*ast.AssignStmt); ok {
			for _, l := range as.Lhs {
				lhs[ast.Unparen(l)] = true
			}
		}
		return true
	})
	ast.Inspect(fd.Decl.Body, func(n ast.Node) bool {
		se, ok := n.(*ast.SelectorExpr)
		if !ok || lhs[se] {
			return true
		}
		sel := info.Selections[se]
		if sel == nil || sel.Kind() != types.FieldVal {
			return true
		}
		// every struct on the (possibly implicit, embedded) path
		t := sel.Recv()
		idx := sel.Index()
		for i, ix := range idx {
			for {
				if pt, ok := t.(*types.Pointer); ok {
					t = pt.Elem()
					continue
				}
				break
			}
			st, ok := t.Underlying().(*types.Struct)
			if !ok {
				break
			}
			f := st.Field(ix)
			if nt, ok := t.(*types.Named); ok && nt.Obj().Pkg() != nil && isAPIPkg(nt.Obj().Pkg().Path()) {
				if i == len(idx)-1 || !f.Embedded() {
					k := nt.Obj().Name() + "." + core.RefName(f)
					if _, seen := out[k]; !seen {
						out[k] = p.Pos(se.Pos())
					}
				}
			}
			t = f.Type()
		}
		return true
	})
	return out
}

// FieldCoverage checks that every listed "Type.Field" is read on the path
// from the given roots.
func FieldCoverage(p *core.Program, r *core.Report, rule, pathName string, roots []*types.Func, fields []string, why string) {
	if len(roots) == 0 {
		r.Lost(rule, "entry points of the "+pathName+" path")
		return
	}
	reads := FieldReadsFrom(p, roots...)
	sort.Strings(fields)
	for _, f := range fields {
		pos, ok := reads[f]
		r.Check(ok, rule, pathName+" path reads "+f, pos, "read at "+pos,
			"no function reachable from the "+pathName+" entry reads "+f+": "+why+" (inputs differing only in this field would be analysed alike)")
	}
	var all []string
	for k := range reads {
		all = append(all, k)
	}
	sort.Strings(all)
	r.Extra["fields_read_on_"+strings.ReplaceAll(pathName, " ", "_")] = all
}

// Entry-point helpers.
func ListEntries(p *core.Program) []*types.Func {
	var out []*types.Func
	if fd := p.Func(core.PkgConnlist, "ConnlistAnalyzer", "ConnlistFromResourceInfos"); fd != nil {
		out = append(out, fd.Obj)
	}
	return out
}

func EvalEntries(p *core.Program) []*types.Func {
	var out []*types.Func
	for _, n := range []string{"CheckIfAllowed", "InsertObject"} {
		if fd := p.Func(core.PkgEval, "PolicyEngine", n); fd != nil {
			out = append(out, fd.Obj)
		}
	}
	return out
}

// Relevant-field tables, written from the property statements.
var (
	FieldsNetpol = []string{
		"NetworkPolicySpec.PodSelector", "NetworkPolicySpec.Ingress", "NetworkPolicySpec.Egress", "NetworkPolicySpec.PolicyTypes",
		"NetworkPolicyIngressRule.From", "NetworkPolicyIngressRule.Ports", "NetworkPolicyEgressRule.To", "NetworkPolicyEgressRule.Ports",
		"NetworkPolicyPeer.PodSelector", "NetworkPolicyPeer.NamespaceSelector", "NetworkPolicyPeer.IPBlock",
		"IPBlock.CIDR", "IPBlock.Except",
		"NetworkPolicyPort.Protocol", "NetworkPolicyPort.Port", "NetworkPolicyPort.EndPort",
		"ContainerPort.Name", "ContainerPort.ContainerPort", "ContainerPort.Protocol",
		"ObjectMeta.Namespace", "ObjectMeta.Labels", "ObjectMeta.Name",
	}
	FieldsAdmin = []string{
		"AdminNetworkPolicySpec.Priority", "AdminNetworkPolicySpec.Subject", "AdminNetworkPolicySpec.Ingress", "AdminNetworkPolicySpec.Egress",
		"AdminNetworkPolicySubject.Namespaces", "AdminNetworkPolicySubject.Pods",
		"AdminNetworkPolicyIngressRule.Action", "AdminNetworkPolicyIngressRule.From", "AdminNetworkPolicyIngressRule.Ports",
		"AdminNetworkPolicyEgressRule.Action", "AdminNetworkPolicyEgressRule.To", "AdminNetworkPolicyEgressRule.Ports",
		"AdminNetworkPolicyIngressPeer.Namespaces", "AdminNetworkPolicyIngressPeer.Pods",
		"AdminNetworkPolicyEgressPeer.Namespaces", "AdminNetworkPolicyEgressPeer.Pods",
		"NamespacedPod.NamespaceSelector", "NamespacedPod.PodSelector",
		"AdminNetworkPolicyPort.PortNumber", "AdminNetworkPolicyPort.NamedPort", "AdminNetworkPolicyPort.PortRange",
		"Port.Protocol", "Port.Port", "PortRange.Protocol", "PortRange.Start", "PortRange.End",
		"BaselineAdminNetworkPolicySpec.Subject", "BaselineAdminNetworkPolicySpec.Ingress", "BaselineAdminNetworkPolicySpec.Egress",
		"BaselineAdminNetworkPolicyIngressRule.Action", "BaselineAdminNetworkPolicyIngressRule.From", "BaselineAdminNetworkPolicyIngressRule.Ports",
		"BaselineAdminNetworkPolicyEgressRule.Action", "BaselineAdminNetworkPolicyEgressRule.To", "BaselineAdminNetworkPolicyEgressRule.Ports",
	}
	FieldsIngress = []string{
		"ServiceSpec.Selector", "ServiceSpec.Ports", "ServicePort.Name", "ServicePort.Port", "ServicePort.TargetPort",
		"IngressSpec.DefaultBackend", "IngressSpec.Rules", "IngressRuleValue.HTTP", "HTTPIngressRuleValue.Paths", "HTTPIngressPath.Backend",
		"IngressBackend.Service", "IngressServiceBackend.Name", "IngressServiceBackend.Port", "ServiceBackendPort.Name", "ServiceBackendPort.Number",
		"RouteSpec.To", "RouteSpec.AlternateBackends", "RouteSpec.Port", "RouteTargetReference.Kind", "RouteTargetReference.Name", "RoutePort.TargetPort",
	}
	FieldsPartition = []string{
		"NetworkPolicySpec.Ingress", "NetworkPolicySpec.Egress", "NetworkPolicyIngressRule.From", "NetworkPolicyEgressRule.To",
		"NetworkPolicyPeer.IPBlock", "IPBlock.CIDR", "IPBlock.Except",
	}
)
