package rules

import (
	"fmt"
	"go/ast"
	"go/token"
	"go/types"
	"strings"

	"npverif/internal/core"
	"npverif/internal/facts"
)

// RulePeerClassification is C07-a: in the pre-scan of a policy every rule
// peer leaves the loop body through exactly one of: ipBlock -> skipped,
// empty selectors -> cluster-wide update, appended to the selector list.
func RulePeerClassification(p *core.Program, r *core.Report, rule string) {
	fd := p.Func(core.PkgK8s, "NetworkPolicy", "getSelectorsAndUpdateExposureClusterWideConns")
	if fd == nil {
		r.Lost(rule, "(*NetworkPolicy).getSelectorsAndUpdateExposureClusterWideConns")
		return
	}
	info := fd.Pkg.TypesInfo
	w := facts.NewWalker(info)
	bad := ""
	isSelAppend := func(n ast.Node) bool {
		as, ok := n.(*ast.AssignStmt)
		if !ok || len(as.Rhs) != 1 {
			return false
		}
		c, ok := ast.Unparen(as.Rhs[0]).(*ast.CallExpr)
		return ok && core.IsBuiltinCall(info, c, "append") && strings.Contains(info.TypeOf(c.Args[0]).String(), "SingleRuleSelectors")
	}
	isClusterWide := func(n ast.Node) bool {
		c, ok := n.(*ast.CallExpr)
		if !ok {
			return false
		}
		fn := core.Callee(info, c)
		return fn != nil && fn.Name() == "updateNetworkPolicyExposureClusterWideConns"
	}
	w.Transfer = func(st int, n ast.Node, f facts.Formula) int {
		if _, ok := n.(*ast.RangeStmt); ok {
			return 0
		}
		if len(w.Loops) == 0 {
			return st
		}
		if isSelAppend(n) {
			return 1
		}
		if isClusterWide(n) {
			return 2
		}
		return st
	}
	ipNonNil := func(f facts.Formula) bool {
		for _, a := range facts.Atoms(f) {
			if strings.HasPrefix(a, "nil:") && strings.HasSuffix(a, ".IPBlock") && facts.Entails(f, facts.Not{X: facts.Atom(a)}) {
				return true
			}
		}
		return false
	}
	nCont := 0
	w.OnBranch = func(b *ast.BranchStmt, states uint64, f facts.Formula) {
		if b.Tok != token.CONTINUE || len(w.Loops) == 0 {
			return
		}
		nCont++
		if !ipNonNil(f) && states&1 != 0 && bad == "" {
			bad = "a rule peer is skipped (continue at " + p.Pos(b.Pos()) + ") although it may be a selector peer: its representative peer is never generated and its exposure goes unreported"
		}
	}
	w.OnLoopBodyEnd = func(loop ast.Stmt, states uint64, f facts.Formula) {
		if states&1 != 0 && bad == "" {
			bad = "the loop body can end (at " + p.Pos(loop.End()) + ") for a rule peer that was neither an ipBlock, nor cluster-wide, nor appended to the selector list"
		}
	}
	w.OnStmt = func(s ast.Stmt, f facts.Formula) {
		ret, ok := s.(*ast.ReturnStmt)
		if !ok || len(w.Loops) == 0 || bad != "" {
			return
		}
		// a return inside the loop: only after the cluster-wide update (reasoned exception: same ports, covered by the cluster-wide entry)
		if w.States()&(1<<2) == 0 || w.States()&^(1<<2) != 0 {
			if !IsErrorReturn(p, w, fd.Obj, ret, f) {
				bad = "the loop over the rule's peers is left by the return at " + p.Pos(ret.Pos()) + " without the cluster-wide update: the remaining peers are not classified"
			}
		}
	}
	w.WalkBody(fd.Decl.Body, nil)
	r.Check(bad == "" && nCont >= 1, rule, fd.Key()+": every rule peer is an ipBlock (skipped), cluster-wide (recorded) or appended to the selector list", p.Pos(fd.Decl.Pos()),
		"the only continue is under IPBlock != nil; the body ends only after the append; the only early return follows the cluster-wide update (reasoned exception: the cluster-wide entry covers the remaining peers of the rule, which have the same ports)", bad)

	// no-drop loop in generateRepresentativePeers
	if g := p.Func(core.PkgEval, "PolicyEngine", "generateRepresentativePeers"); g == nil {
		r.Lost(rule, "(*PolicyEngine).generateRepresentativePeers")
	} else {
		ginfo := g.Pkg.TypesInfo
		gw := facts.NewWalker(ginfo)
		gbad := ""
		called := false
		gw.Transfer = func(st int, n ast.Node, f facts.Formula) int {
			if _, ok := n.(*ast.RangeStmt); ok {
				return 0
			}
			if c, ok := n.(*ast.CallExpr); ok {
				if fn := core.Callee(ginfo, c); fn != nil && fn.Name() == "addRepresentativePod" {
					called = true
					return 1
				}
			}
			return st
		}
		gw.OnBranch = func(b *ast.BranchStmt, states uint64, f facts.Formula) {
			if len(gw.Loops) > 0 && gbad == "" {
				gbad = b.Tok.String() + " at " + p.Pos(b.Pos())
			}
		}
		gw.OnLoopBodyEnd = func(loop ast.Stmt, states uint64, f facts.Formula) {
			if states&1 != 0 && gbad == "" {
				gbad = "an iteration can end without addRepresentativePod"
			}
		}
		gw.OnStmt = func(s ast.Stmt, f facts.Formula) {
			if ret, ok := s.(*ast.ReturnStmt); ok && len(gw.Loops) > 0 && !IsErrorReturn(p, gw, g.Obj, ret, f) && gbad == "" {
				gbad = "non-error return inside the loop at " + p.Pos(ret.Pos())
			}
		}
		gw.WalkBody(g.Decl.Body, nil)
		r.Check(gbad == "" && called, rule, g.Key()+": a representative peer is generated for every selector pair", p.Pos(g.Decl.Pos()), "no continue/break/non-error return; addRepresentativePod on every iteration", "a selector pair can be dropped: "+gbad)
	}
	// both directions are scanned under policyAffectsDirection
	if s := p.Func(core.PkgK8s, "NetworkPolicy", "GetPolicyRulesSelectorsAndUpdateExposureClusterWideConns"); s == nil {
		r.Lost(rule, "(*NetworkPolicy).GetPolicyRulesSelectorsAndUpdateExposureClusterWideConns")
	} else {
		sinfo := s.Pkg.TypesInfo
		for _, d := range []struct{ scan, dir string }{{"scanIngressRules", "PolicyTypeIngress"}, {"scanEgressRules", "PolicyTypeEgress"}} {
			var call *ast.CallExpr
			ast.Inspect(s.Decl.Body, func(n ast.Node) bool {
				if c, ok := n.(*ast.CallExpr); ok {
					if fn := core.Callee(sinfo, c); fn != nil && fn.Name() == d.scan {
						call = c
					}
				}
				return true
			})
			ok := false
			if call != nil {
				fm, _, found := FactsAt(s, call, nil)
				if found {
					for _, a := range facts.Atoms(fm) {
						if strings.Contains(a, "policyAffectsDirection(") && strings.Contains(a, d.dir) && facts.Entails(fm, facts.Atom(a)) {
							ok = true
						}
					}
				}
			}
			r.Check(ok, rule, s.Key()+": "+d.scan+" runs when the policy affects that direction", p.Pos(s.Decl.Pos()), "called under policyAffectsDirection("+d.dir+")", d.scan+" is not called exactly under policyAffectsDirection("+d.dir+")")
		}
	}
	r.Floor(rule, 4)
}

// RepresentativeKey is C07-b: the de-duplication key of representative peers
// is computed from exactly the two selectors stored in the peer.
func RepresentativeKey(p *core.Program, r *core.Report, rule string) {
	fd := p.Func(core.PkgEval, "PolicyEngine", "addRepresentativePod")
	rep := p.Field(core.PkgEval, "PolicyEngine", "representativePeersMap")
	if fd == nil || rep == nil {
		r.Lost(rule, "(*PolicyEngine).addRepresentativePod / representativePeersMap")
		return
	}
	info := fd.Pkg.TypesInfo
	// stored selectors
	stored := map[string]string{}
	ast.Inspect(fd.Decl.Body, func(n ast.Node) bool {
		cl, ok := n.(*ast.CompositeLit)
		if !ok || !core.TypeIs(info.TypeOf(cl), core.PkgK8s, "Pod") {
			return true
		}
		for _, el := range cl.Elts {
			if kv, ok := el.(*ast.KeyValueExpr); ok {
				if id, ok := kv.Key.(*ast.Ident); ok && strings.HasPrefix(id.Name, "Representative") {
					stored[id.Name] = core.ExprStr(kv.Value)
				}
			}
		}
		return true
	})
	// key parts: locals defined by UniqueKeyFromLabelsSelector(X)
	keyOf := map[types.Object]string{}
	ast.Inspect(fd.Decl.Body, func(n ast.Node) bool {
		as, ok := n.(*ast.AssignStmt)
		if !ok || len(as.Rhs) != 1 {
			return true
		}
		c, ok := ast.Unparen(as.Rhs[0]).(*ast.CallExpr)
		if !ok || len(c.Args) != 1 {
			return true
		}
		if fn := core.Callee(info, c); fn != nil && fn.Name() == "UniqueKeyFromLabelsSelector" {
			if id, ok := as.Lhs[0].(*ast.Ident); ok {
				keyOf[info.ObjectOf(id)] = core.ExprStr(c.Args[0])
			}
		}
		return true
	})
	// the map key used for lookup and store
	var keyExprs []ast.Expr
	ast.Inspect(fd.Decl.Body, func(n ast.Node) bool {
		if ix, ok := n.(*ast.IndexExpr); ok && core.FieldOf(info, ix.X) == rep {
			keyExprs = append(keyExprs, ix.Index)
		}
		return true
	})
	covered := map[string]bool{}
	sameKey := true
	for _, ke := range keyExprs {
		if core.ExprStr(ke) != core.ExprStr(keyExprs[0]) {
			sameKey = false
		}
	}
	if len(keyExprs) > 0 {
		// follow the key variable to its definition
		var collect func(e ast.Expr, depth int)
		collect = func(e ast.Expr, depth int) {
			ast.Inspect(e, func(n ast.Node) bool {
				id, ok := n.(*ast.Ident)
				if !ok {
					return true
				}
				o := info.ObjectOf(id)
				if sel, ok := keyOf[o]; ok {
					covered[sel] = true
					return true
				}
				if depth < 2 {
					ast.Inspect(fd.Decl.Body, func(m ast.Node) bool {
						if as, ok := m.(*ast.AssignStmt); ok && len(as.Lhs) == 1 && len(as.Rhs) == 1 {
							if lid, ok := as.Lhs[0].(*ast.Ident); ok && info.ObjectOf(lid) == o && as.Rhs[0] != e {
								collect(as.Rhs[0], depth+1)
							}
						}
						return true
					})
				}
				return true
			})
		}
		collect(keyExprs[0], 0)
	}
	okAll := len(stored) == 2 && sameKey && len(keyExprs) >= 2
	var miss []string
	for fldName, val := range stored {
		if !covered[val] {
			okAll = false
			miss = append(miss, fldName+" ("+val+")")
		}
	}
	r.Check(okAll, rule, fd.Key()+": the representative key covers both stored selectors", p.Pos(fd.Decl.Pos()),
		fmt.Sprintf("key built from UniqueKeyFromLabelsSelector of %v, the values stored in the peer; lookup and store use the same key", sortedKeys(covered)),
		"the de-duplication key does not depend on every selector stored in the representative peer (missing: "+strings.Join(miss, ", ")+"): rules with different selectors would share one representative and one of them would go unreported")
}

// RepresentativeDeletion is C07-c.
func RepresentativeDeletion(p *core.Program, r *core.Report, rule string) {
	rep := p.Field(core.PkgEval, "PolicyEngine", "representativePeersMap")
	if rep == nil {
		r.Lost(rule, "PolicyEngine.representativePeersMap")
		return
	}
	for _, fd := range p.Funcs {
		info := fd.Pkg.TypesInfo
		ast.Inspect(fd.Decl.Body, func(n ast.Node) bool {
			c, ok := n.(*ast.CallExpr)
			if !ok || !core.IsBuiltinCall(info, c, "delete") || core.FieldOf(info, c.Args[0]) != rep {
				return true
			}
			r.Check(fd.Obj.Name() == "removeRepresentativePeersMatchingLabels", rule, fd.Key()+": deletes representative peers", p.Pos(c.Pos()), "the documented refinement", "representative peers are deleted outside removeRepresentativePeersMatchingLabels: potential connections go unreported")
			return true
		})
	}
	fd := p.Func(core.PkgEval, "PolicyEngine", "removeRepresentativePeersMatchingLabels")
	if fd == nil {
		r.Lost(rule, "(*PolicyEngine).removeRepresentativePeersMatchingLabels")
		return
	}
	info := fd.Pkg.TypesInfo
	w := facts.NewWalker(info)
	found := false
	w.OnStmt = func(s ast.Stmt, f facts.Formula) {
		as, ok := s.(*ast.AssignStmt)
		if !ok || len(as.Rhs) != 1 {
			return
		}
		c, ok := ast.Unparen(as.Rhs[0]).(*ast.CallExpr)
		if !ok || !core.IsBuiltinCall(info, c, "append") {
			return
		}
		found = true
		bg := facts.MkAnd(f, facts.LenImplications(f))
		need := map[string]bool{"pod-expr": false, "ns-expr": false, "pod-match": false, "ns-match": false, "ns-nonempty": false, "pod-nonempty": false}
		for _, a := range facts.Atoms(bg) {
			pos := facts.Entails(bg, facts.Atom(a))
			neg := facts.Entails(bg, facts.Not{X: facts.Atom(a)})
			switch {
			case strings.HasPrefix(a, "empty:") && strings.HasSuffix(a, "RepresentativePodLabelSelector.MatchExpressions") && pos:
				need["pod-expr"] = true
			case strings.HasPrefix(a, "empty:") && strings.HasSuffix(a, "RepresentativeNsLabelSelector.MatchExpressions") && pos:
				need["ns-expr"] = true
			case strings.Contains(a, "odSelector") && strings.Contains(a, ".Matches(") && pos:
				need["pod-match"] = true
			case strings.Contains(a, "NsSelector") && strings.Contains(a, ".Matches(") && pos:
				need["ns-match"] = true
			case strings.Contains(a, "NsSelector") && strings.HasSuffix(a, ".Empty()") && neg:
				need["ns-nonempty"] = true
			case strings.Contains(a, "odSelector") && strings.HasSuffix(a, ".Empty()") && neg:
				need["pod-nonempty"] = true
			}
		}
		var miss []string
		for k, v := range need {
			if !v {
				miss = append(miss, k)
			}
		}
		r.Check(len(miss) == 0, rule, fd.Key()+": a representative peer is removed only under the documented condition", p.Pos(as.Pos()),
			"neither selector has matchExpressions, both matchLabels selectors are non-empty and both match the real pod and its namespace",
			"a representative peer is scheduled for removal without all of: no matchExpressions in the pod AND namespace selectors, non-empty selectors, both matching the real pod/namespace (missing: "+strings.Join(miss, ", ")+"): a real pod that satisfies only part of a rule's selectors would hide the rule's exposure")
	}
	w.WalkBody(fd.Decl.Body, nil)
	if !found {
		r.Bad(rule, fd.Key()+": a representative peer is removed only under the documented condition", p.Pos(fd.Decl.Pos()), "the collection of keys to delete was not found")
	}
}

// SelectorsFullMatchTable: a negative answer is given only after the
// "empty rule selector matches everything" row has been ruled out.
func SelectorsFullMatchTable(p *core.Program, r *core.Report, rule string) {
	fd := p.Func(core.PkgK8s, "", "SelectorsFullMatch")
	if fd == nil {
		r.Lost(rule, "k8s.SelectorsFullMatch")
		return
	}
	info := fd.Pkg.TypesInfo
	w := facts.NewWalker(info)
	n := 0
	rowsTrue := 0
	w.OnStmt = func(s ast.Stmt, f facts.Formula) {
		ret, ok := s.(*ast.ReturnStmt)
		if !ok || len(ret.Results) != 2 || !core.IsNil(info, ret.Results[1]) {
			return
		}
		v, ok := core.ConstString(info, ret.Results[0])
		if !ok {
			return
		}
		if v == "true" {
			rowsTrue++
			return
		}
		n++
		emptyRuledOut := false
		for _, a := range facts.Atoms(f) {
			if strings.HasPrefix(a, "b:") && strings.HasSuffix(a, ".Empty()") && facts.Entails(f, facts.Not{X: facts.Atom(a)}) {
				emptyRuledOut = true
			}
		}
		r.Check(emptyRuledOut, rule, fmt.Sprintf("%s: negative answer #%d only for a non-empty rule selector", fd.Key(), n), p.Pos(ret.Pos()),
			"false is returned only after ruleSelector.Empty() was tested and is false", "false is returned before the rows 'same selector' / 'empty rule selector matches everything' are decided: a rule with an empty selector no longer matches representative peers generated from other rules")
	}
	w.WalkBody(fd.Decl.Body, nil)
	r.Check(rowsTrue >= 3, rule, fd.Key()+": has the three positive rows (same reference, empty rule selector, equal requirements)", p.Pos(fd.Decl.Pos()), fmt.Sprintf("%d positive returns", rowsTrue), "a positive row of the selector-match table is gone")
	r.Floor(rule, 3)
}

// ContainmentSeesNamedPorts is C07-d: the test that suppresses an exposure
// entry covered by the entire-cluster entry reaches PortSet.ContainedIn, which
// consults the named ports of both sides.
func ContainmentSeesNamedPorts(p *core.Program, r *core.Report, rule string) {
	fd := p.Func(core.PkgConnlist, "", "connectionContainedInEntireClusterConn")
	if fd == nil {
		r.Lost(rule, "connlist.connectionContainedInEntireClusterConn")
		return
	}
	info := fd.Pkg.TypesInfo
	usesContained := false
	ast.Inspect(fd.Decl.Body, func(n ast.Node) bool {
		if c, ok := n.(*ast.CallExpr); ok {
			if fn := core.Callee(info, c); fn != nil && fn.Name() == "ContainedIn" && core.RecvTypeName(fn.Type().(*types.Signature)) == "ConnectionSet" {
				usesContained = true
			}
		}
		return true
	})
	r.Check(usesContained, rule, fd.Key()+": suppression is decided by ConnectionSet.ContainedIn", p.Pos(fd.Decl.Pos()), "resolved callee", "the suppression test no longer uses ConnectionSet.ContainedIn")
	sums := Effects(p, core.PkgCommon)
	m := p.Func(core.PkgCommon, "PortSet", "ContainedIn")
	if m == nil {
		r.Lost(rule, "(*PortSet).ContainedIn")
		return
	}
	s := sums[m.Obj]
	for side, label := range []string{"receiver", "operand"} {
		got := map[string]bool{}
		if s != nil {
			for f := range s.FieldReads[side] {
				got[f] = true
			}
		}
		r.Check(got["Ports"] && got["NamedPorts"], rule, fmt.Sprintf("%s: consults Ports+NamedPorts of its %s", m.Key(), label), p.Pos(m.Decl.Pos()), "reads "+setNames(got),
			"the containment test ignores the named ports of its "+label+": an exposure entry with a named port is wrongly considered covered by the entire-cluster entry and dropped")
	}
	// ConnectionSet.ContainedIn delegates per protocol
	cm := p.Func(core.PkgCommon, "ConnectionSet", "ContainedIn")
	if cm != nil {
		delegates := false
		ast.Inspect(cm.Decl.Body, func(n ast.Node) bool {
			if c, ok := n.(*ast.CallExpr); ok {
				if fn := core.Callee(cm.Pkg.TypesInfo, c); fn == m.Obj {
					delegates = true
				}
			}
			return true
		})
		r.Check(delegates, rule, cm.Key()+": delegates to PortSet.ContainedIn per protocol", p.Pos(cm.Decl.Pos()), "", "ConnectionSet.ContainedIn no longer asks PortSet.ContainedIn")
	}
}
