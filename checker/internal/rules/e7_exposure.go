package rules

import (
	"fmt"
	"go/ast"
	"go/token"
	"go/types"
	"sort"
	"strings"

	"npverif/internal/core"
	"npverif/internal/facts"
)

// RulePeerClassification is C07-a: in the pre-scan of a policy every rule
// peer leaves the loop body through exactly one of: ipBlock -> skipped,
// empty selectors -> cluster-wide update, appended to the selector list.
func RulePeerClassification(p *core.Program, r *core.Report, rule string) {
	fd := p.Func(core.PkgK8s, "NetworkPolicy", "getSelectorsAndUpdateExposureClusterWideConns")
	if fd == nil {
		r.Lost(rule, "(*NetworkPolicy).getSelectorsAndUpdateExposureClusterWideConns")
		return
	}
	info := fd.Pkg.TypesInfo
	w := facts.NewWalker(info)
	bad := ""
	isSelAppend := func(n ast.Node) bool {
		as, ok := n.(*ast.AssignStmt)
		if !ok || len(as.Rhs) != 1 {
			return false
		}
		c, ok := ast.Unparen(as.Rhs[0]).(*ast.CallExpr)
		return ok && core.IsBuiltinCall(info, c, "append") && strings.Contains(info.TypeOf(c.Args[0]).String(), "SingleRuleSelectors")
	}
	isClusterWide := func(n ast.Node) bool {
		c, ok := n.(*ast.CallExpr)
		if !ok {
			return false
		}
		fn := core.Callee(info, c)
		return fn != nil && core.RefName(fn) == "updateNetworkPolicyExposureClusterWideConns"
	}
	w.Transfer = func(st int, n ast.Node, f facts.Formula) int {
		if _, ok := n.(*ast.RangeStmt); ok {
			return 0
		}
		if len(w.Loops) == 0 {
			return st
		}
		if isSelAppend(n) {
			return 1
		}
		if isClusterWide(n) {
			return 2
		}
		return st
	}
	ipNonNil := func(f facts.Formula) bool {
		for _, a := range facts.Atoms(f) {
			if strings.HasPrefix(a, "nil:") && strings.HasSuffix(a, ".IPBlock") && facts.Entails(f, facts.Not{X: facts.Atom(a)}) {
				return true
			}
		}
		return false
	}
	nCont := 0
	w.OnBranch = func(b *ast.BranchStmt, states uint64, f facts.Formula) {
		if b.Tok != token.CONTINUE || len(w.Loops) == 0 {
			return
		}
		nCont++
		if !ipNonNil(f) && states&1 != 0 && bad == "" {
			bad = "a rule peer is skipped (continue at " + p.Pos(b.Pos()) + ") although it may be a selector peer: its representative peer is never generated and its exposure goes unreported"
		}
	}
	w.OnLoopBodyEnd = func(loop ast.Stmt, states uint64, f facts.Formula) {
		if states&1 != 0 && bad == "" {
			bad = "the loop body can end (at " + p.Pos(loop.End()) + ") for a rule peer that was neither an ipBlock, nor cluster-wide, nor appended to the selector list"
		}
	}
	w.OnStmt = func(s ast.Stmt, f facts.Formula) {
		ret, ok := s.(*ast.ReturnStmt)
		if !ok || len(w.Loops) == 0 || bad != "" {
			return
		}
		// a return inside the loop: only after the cluster-wide update (reasoned exception: same ports, covered by the cluster-wide entry)
		if w.States()&(1<<2) == 0 || w.States()&^(1<<2) != 0 {
			if !IsErrorReturn(p, w, fd.Obj, ret, f) {
				bad = "the loop over the rule's peers is left by the return at " + p.Pos(ret.Pos()) + " without the cluster-wide update: the remaining peers are not classified"
			}
		}
	}
	w.WalkBody(fd.Decl.Body, nil)
	r.Check(bad == "" && nCont >= 1, rule, fd.Key()+": every rule peer is an ipBlock (skipped), cluster-wide (recorded) or appended to the selector list", p.Pos(fd.Decl.Pos()),
		"the only continue is under IPBlock != nil; the body ends only after the append; the only early return follows the cluster-wide update (reasoned exception: the cluster-wide entry covers the remaining peers of the rule, which have the same ports)", bad)

	// no-drop loop in generateRepresentativePeers
	if g := p.Func(core.PkgEval, "PolicyEngine", "generateRepresentativePeers"); g == nil {
		r.Lost(rule, "(*PolicyEngine).generateRepresentativePeers")
	} else {
		ginfo := g.Pkg.TypesInfo
		gw := facts.NewWalker(ginfo)
		gbad := ""
		called := false
		gw.Transfer = func(st int, n ast.Node, f facts.Formula) int {
			if _, ok := n.(*ast.RangeStmt); ok {
				return 0
			}
			if c, ok := n.(*ast.CallExpr); ok {
				if fn := core.Callee(ginfo, c); fn != nil && core.RefName(fn) == "addRepresentativePod" {
					called = true
					return 1
				}
			}
			return st
		}
		gw.OnBranch = func(b *ast.BranchStmt, states uint64, f facts.Formula) {
			// leaving the iteration is a drop only on a path on which the peer has not been generated yet
			if len(gw.Loops) > 0 && gbad == "" && (states&1 != 0 || b.Tok != token.CONTINUE) {
				gbad = b.Tok.String() + " at " + p.Pos(b.Pos())
			}
		}
		gw.OnLoopBodyEnd = func(loop ast.Stmt, states uint64, f facts.Formula) {
			if states&1 != 0 && gbad == "" {
				gbad = "an iteration can end without addRepresentativePod"
			}
		}
		gw.OnStmt = func(s ast.Stmt, f facts.Formula) {
			if ret, ok := s.(*ast.ReturnStmt); ok && len(gw.Loops) > 0 && !IsErrorReturn(p, gw, g.Obj, ret, f) && gbad == "" {
				gbad = "non-error return inside the loop at " + p.Pos(ret.Pos())
			}
		}
		gw.WalkBody(g.Decl.Body, nil)
		r.Check(gbad == "" && called, rule, g.Key()+": a representative peer is generated for every selector pair", p.Pos(g.Decl.Pos()), "no continue/break/non-error return; addRepresentativePod on every iteration", "a selector pair can be dropped: "+gbad)
	}
	// both directions are scanned under policyAffectsDirection
	if s := p.Func(core.PkgK8s, "NetworkPolicy", "GetPolicyRulesSelectorsAndUpdateExposureClusterWideConns"); s == nil {
		r.Lost(rule, "(*NetworkPolicy).GetPolicyRulesSelectorsAndUpdateExposureClusterWideConns")
	} else {
		// the scan of one direction is identified by what it does: it iterates over Spec.Ingress / Spec.Egress, here or in a
		// helper of the package this function calls; every such site must sit under policyAffectsDirection(<that direction>)
		for _, d := range []struct{ field, dir string }{{"Ingress", "PolicyTypeIngress"}, {"Egress", "PolicyTypeEgress"}} {
			var sites []ast.Node
			sites = append(sites, iteratesSpecRules(s.Pkg.TypesInfo, s.Decl.Body, d.field)...)
			ast.Inspect(s.Decl.Body, func(n ast.Node) bool {
				if c, ok := n.(*ast.CallExpr); ok {
					if fn := core.Callee(s.Pkg.TypesInfo, c); fn != nil && fn != s.Obj && helperIteratesSpecRules(p, fn, d.field, 0) {
						sites = append(sites, c)
					}
				}
				return true
			})
			ok := len(sites) > 0
			why := "no iteration over Spec." + d.field + " is reachable from the function"
			for _, site := range sites {
				fm, _, found := FactsAt(s, site, nil)
				under := false
				if found {
					for _, a := range facts.Atoms(fm) {
						if strings.Contains(a, "policyAffectsDirection(") && strings.Contains(a, d.dir) && facts.Entails(fm, facts.Atom(a)) {
							under = true
						}
					}
				}
				if !under {
					ok = false
					why = "the scan of Spec." + d.field + " at " + p.Pos(site.Pos()) + " does not run exactly under policyAffectsDirection(" + d.dir + ")"
				}
			}
			r.Check(ok, rule, s.Key()+": the "+strings.ToLower(d.field)+" rules are scanned when the policy affects that direction", p.Pos(s.Decl.Pos()), "scanned under policyAffectsDirection("+d.dir+")", why)
		}
	}
	r.Floor(rule, 4)
}

// iteratesSpecRules returns the places in body that iterate over the Ingress / Egress rules of a NetworkPolicySpec: the ranged
// or indexed read of that field (a plain len() test is not a scan).
func iteratesSpecRules(info *types.Info, body ast.Node, field string) []ast.Node {
	var out []ast.Node
	isRead := func(e ast.Expr) bool {
		se, ok := ast.Unparen(e).(*ast.SelectorExpr)
		if !ok || se.Sel.Name != field {
			return false
		}
		t := info.TypeOf(se.X)
		if t == nil {
			return false
		}
		if pt, ok := t.Underlying().(*types.Pointer); ok {
			t = pt.Elem()
		}
		n := core.NamedOf(t)
		return n != nil && n.Obj().Name() == "NetworkPolicySpec"
	}
	ast.Inspect(body, func(n ast.Node) bool {
		switch x := n.(type) {
		case *ast.RangeStmt:
			if isRead(x.X) {
				out = append(out, ast.Unparen(x.X))
			}
		case *ast.IndexExpr:
			if isRead(x.X) {
				out = append(out, ast.Unparen(x.X))
			}
		}
		return true
	})
	return out
}

func helperIteratesSpecRules(p *core.Program, fn *types.Func, field string, depth int) bool {
	fd := p.ByObj[fn]
	if fd == nil || fd.Decl.Body == nil || depth > 2 {
		return false
	}
	if len(iteratesSpecRules(fd.Pkg.TypesInfo, fd.Decl.Body, field)) > 0 {
		return true
	}
	found := false
	ast.Inspect(fd.Decl.Body, func(n ast.Node) bool {
		if c, ok := n.(*ast.CallExpr); ok && !found {
			if g := core.Callee(fd.Pkg.TypesInfo, c); g != nil && g != fn && helperIteratesSpecRules(p, g, field, depth+1) {
				found = true
			}
		}
		return !found
	})
	return found
}

// RepresentativeKey is C07-b: the de-duplication key of representative peers
// is computed from exactly the two selectors stored in the peer.
func RepresentativeKey(p *core.Program, r *core.Report, rule string) {
	fd := p.Func(core.PkgEval, "PolicyEngine", "addRepresentativePod")
	rep := p.Field(core.PkgEval, "PolicyEngine", "representativePeersMap")
	if fd == nil || rep == nil {
		r.Lost(rule, "(*PolicyEngine).addRepresentativePod / representativePeersMap")
		return
	}
	info := fd.Pkg.TypesInfo
	// stored selectors
	stored := map[string]string{}
	// (in the literal of the pod or assigned to its fields afterwards)
	for _, fw := range FieldWrites(info, fd.Decl.Body) {
		if fw.Owner == "Pod" && strings.HasPrefix(core.RefName(fw.Field), "Representative") {
			stored[core.RefName(fw.Field)] = core.ExprStr(fw.Value)
		}
	}
	// key parts: locals defined by UniqueKeyFromLabelsSelector(X)
	// (or by a helper of the package whose returned string is built from UniqueKeyFromLabelsSelector of its parameters:
	// then the local covers the arguments those parameters receive)
	keyOf := map[types.Object][]string{}
	helperCovers := func(hd *core.FuncDecl) []int {
		hinfo := hd.Pkg.TypesInfo
		hsig := hd.Obj.Type().(*types.Signature)
		part := map[types.Object]int{}
		ast.Inspect(hd.Decl.Body, func(n ast.Node) bool {
			as, ok := n.(*ast.AssignStmt)
			if !ok || len(as.Rhs) != 1 {
				return true
			}
			c, ok := ast.Unparen(as.Rhs[0]).(*ast.CallExpr)
			if !ok || len(c.Args) != 1 {
				return true
			}
			if fn := core.Callee(hinfo, c); fn != nil && core.RefName(fn) == "UniqueKeyFromLabelsSelector" {
				if aid, isA := ast.Unparen(c.Args[0]).(*ast.Ident); isA {
					for k := 0; k < hsig.Params().Len(); k++ {
						if hinfo.ObjectOf(aid) == types.Object(hsig.Params().At(k)) {
							if id, isId := as.Lhs[0].(*ast.Ident); isId {
								part[hinfo.ObjectOf(id)] = k
							}
						}
					}
				}
			}
			return true
		})
		var common map[int]bool
		ast.Inspect(hd.Decl.Body, func(n ast.Node) bool {
			if _, isLit := n.(*ast.FuncLit); isLit {
				return false
			}
			ret, ok := n.(*ast.ReturnStmt)
			if !ok || len(ret.Results) == 0 {
				return true
			}
			if v, isC := core.ConstString(hinfo, ret.Results[0]); isC && v == "" {
				return true // the error exits
			}
			got := map[int]bool{}
			ast.Inspect(ret.Results[0], func(m ast.Node) bool {
				if id, isId := m.(*ast.Ident); isId {
					o := hinfo.ObjectOf(id)
					if k, has := part[o]; has {
						got[k] = true
					} else if d, _ := defOf(hd, id); d != nil {
						ast.Inspect(d, func(mm ast.Node) bool {
							if id2, is2 := mm.(*ast.Ident); is2 {
								if k2, has2 := part[hinfo.ObjectOf(id2)]; has2 {
									got[k2] = true
								}
							}
							return true
						})
					}
				}
				return true
			})
			if common == nil {
				common = got
			} else {
				for k := range common {
					if !got[k] {
						delete(common, k)
					}
				}
			}
			return true
		})
		var out []int
		for k := range common {
			out = append(out, k)
		}
		sort.Ints(out)
		return out
	}
	ast.Inspect(fd.Decl.Body, func(n ast.Node) bool {
		as, ok := n.(*ast.AssignStmt)
		if !ok || len(as.Rhs) != 1 {
			return true
		}
		c, ok := ast.Unparen(as.Rhs[0]).(*ast.CallExpr)
		if !ok {
			return true
		}
		id, isId := as.Lhs[0].(*ast.Ident)
		if !isId {
			return true
		}
		fn := core.Callee(info, c)
		if fn == nil {
			return true
		}
		if core.RefName(fn) == "UniqueKeyFromLabelsSelector" && len(c.Args) == 1 {
			keyOf[info.ObjectOf(id)] = []string{core.ExprStr(c.Args[0])}
		} else if hd := p.ByObj[fn]; hd != nil && hd.Pkg.PkgPath == core.PkgEval {
			for _, k := range helperCovers(hd) {
				if k < len(c.Args) {
					keyOf[info.ObjectOf(id)] = append(keyOf[info.ObjectOf(id)], core.ExprStr(c.Args[k]))
				}
			}
		}
		return true
	})
	// the map key used for lookup and store
	var keyExprs []ast.Expr
	ast.Inspect(fd.Decl.Body, func(n ast.Node) bool {
		if ix, ok := n.(*ast.IndexExpr); ok && core.FieldOf(info, ix.X) == rep {
			keyExprs = append(keyExprs, ix.Index)
		}
		return true
	})
	covered := map[string]bool{}
	sameKey := true
	for _, ke := range keyExprs {
		if core.ExprStr(ke) != core.ExprStr(keyExprs[0]) {
			sameKey = false
		}
	}
	if len(keyExprs) > 0 {
		// follow the key variable to its definition
		var collect func(e ast.Expr, depth int)
		collect = func(e ast.Expr, depth int) {
			ast.Inspect(e, func(n ast.Node) bool {
				id, ok := n.(*ast.Ident)
				if !ok {
					return true
				}
				o := info.ObjectOf(id)
				if sels, ok := keyOf[o]; ok {
					for _, sel := range sels {
						covered[sel] = true
					}
					return true
				}
				if depth < 2 {
					ast.Inspect(fd.Decl.Body, func(m ast.Node) bool {
						if as, ok := m.(*ast.AssignStmt); ok && len(as.Lhs) == 1 && len(as.Rhs) == 1 {
							if lid, ok := as.Lhs[0].(*ast.Ident); ok && info.ObjectOf(lid) == o && as.Rhs[0] != e {
								collect(as.Rhs[0], depth+1)
							}
						}
						return true
					})
				}
				return true
			})
		}
		collect(keyExprs[0], 0)
	}
	okAll := len(stored) == 2 && sameKey && len(keyExprs) >= 2
	var miss []string
	for fldName, val := range stored {
		if !covered[val] {
			okAll = false
			miss = append(miss, fldName+" ("+val+")")
		}
	}
	r.Check(okAll, rule, fd.Key()+": the representative key covers both stored selectors", p.Pos(fd.Decl.Pos()),
		fmt.Sprintf("key built from UniqueKeyFromLabelsSelector of %v, the values stored in the peer; lookup and store use the same key", sortedKeys(covered)),
		"the de-duplication key does not depend on every selector stored in the representative peer (missing: "+strings.Join(miss, ", ")+"): rules with different selectors would share one representative and one of them would go unreported")
}

// RepresentativeDeletion is C07-c.
func RepresentativeDeletion(p *core.Program, r *core.Report, rule string) {
	rep := p.Field(core.PkgEval, "PolicyEngine", "representativePeersMap")
	if rep == nil {
		r.Lost(rule, "PolicyEngine.representativePeersMap")
		return
	}
	for _, fd := range p.Funcs {
		info := fd.Pkg.TypesInfo
		ast.Inspect(fd.Decl.Body, func(n ast.Node) bool {
			c, ok := n.(*ast.CallExpr)
			if !ok || !core.IsBuiltinCall(info, c, "delete") || core.FieldOf(info, c.Args[0]) != rep {
				return true
			}
			r.Check(core.RefName(fd.Obj) == "removeRepresentativePeersMatchingLabels", rule, fd.Key()+": deletes representative peers", p.Pos(c.Pos()), "the documented refinement", "representative peers are deleted outside removeRepresentativePeersMatchingLabels: potential connections go unreported")
			return true
		})
	}
	fd := p.Func(core.PkgEval, "PolicyEngine", "removeRepresentativePeersMatchingLabels")
	if fd == nil {
		r.Lost(rule, "(*PolicyEngine).removeRepresentativePeersMatchingLabels")
		return
	}
	// The removal decision, wherever it is written: the append to the list of keys to delete, a delete inside the loop
	// over the map, or the positive answers of the predicate handed to maps.DeleteFunc. On each, the path must entail
	// the six documented facts. The facts are canonical atoms built from the FIELDS a tested value derives from
	// (locals unfolded), and a multi-statement boolean helper on the path contributes what all its positive answers
	// entail - so neither the names of locals nor the place of the tests matters.
	info := fd.Pkg.TypesInfo
	want := []string{"!expr:pod", "!expr:ns", "!emptysel:pod", "!emptysel:ns", "match:pod", "match:ns"}
	c := fd.Key() + ": a representative peer is removed only under the documented condition"
	n := 0
	judge := func(at ast.Node, have map[string]bool) {
		n++
		var miss []string
		for _, k := range want {
			if !have[k] {
				miss = append(miss, k)
			}
		}
		r.Check(len(miss) == 0, rule, c, p.Pos(at.Pos()),
			"neither selector has matchExpressions, both matchLabels selectors are non-empty and both match the real pod and its namespace",
			"a representative peer is scheduled for removal without all of: no matchExpressions in the pod AND namespace selectors, non-empty selectors, both matching the real pod/namespace (not established: "+strings.Join(miss, ", ")+"): a real pod that satisfies only part of a rule's selectors would hide the rule's exposure")
	}
	decide := func(at ast.Node, w *facts.Walker, f facts.Formula, in *types.Info) {
		judge(at, repRemovalFacts(p, in, w, f, 0))
	}
	w := facts.NewWalker(info)
	w.Atomize = repSelectorAtomizer(info, fd.Decl.Body)
	w.Inline = true
	w.OnStmt = func(s ast.Stmt, f facts.Formula) {
		if w.FuncLitDepth > 0 {
			return
		}
		switch x := s.(type) {
		case *ast.AssignStmt:
			if len(x.Rhs) != 1 || len(w.Loops) == 0 {
				return
			}
			if cl, ok := ast.Unparen(x.Rhs[0]).(*ast.CallExpr); ok && core.IsBuiltinCall(info, cl, "append") {
				if t, isS := info.TypeOf(x.Lhs[0]).Underlying().(*types.Slice); isS {
					if b, isB := t.Elem().Underlying().(*types.Basic); isB && b.Info()&types.IsString != 0 {
						decide(x, w, f, info)
					}
				}
			}
		case *ast.ExprStmt:
			cl, ok := x.X.(*ast.CallExpr)
			if !ok {
				return
			}
			if core.IsBuiltinCall(info, cl, "delete") && core.FieldOf(info, cl.Args[0]) == rep && len(w.Loops) > 0 {
				// a delete in the loop that ranges over the keys collected before is not a decision; one in the loop over the map is
				if rs, isR := w.Loops[len(w.Loops)-1].(*ast.RangeStmt); isR && FieldBehind(fd, rs.X) == rep {
					decide(x, w, f, info)
				}
			}
			if fn := core.Callee(info, cl); fn != nil && fn.Pkg() != nil && fn.Pkg().Path() == "maps" && core.RefName(fn) == "DeleteFunc" && len(cl.Args) == 2 && core.FieldOf(info, cl.Args[0]) == rep {
				lit, isLit := ast.Unparen(cl.Args[1]).(*ast.FuncLit)
				if !isLit {
					r.Bad(rule, c, p.Pos(cl.Pos()), "the deletion predicate is not a function literal: its positive answers cannot be examined here")
					n++
					return
				}
				lw := facts.NewWalker(info)
				lw.Atomize = repSelectorAtomizer(info, lit.Body)
				lw.Inline = true
				lw.OnExit = func(st int, ret *ast.ReturnStmt, lf facts.Formula) {
					if lw.FuncLitDepth > 0 || ret == nil || len(ret.Results) != 1 {
						return
					}
					if v, isC := core.ConstString(info, ret.Results[0]); isC && v == "false" {
						return
					}
					pf := facts.MkAnd(lf, lw.Cond(ret.Results[0]))
					if facts.Satisfiable(pf) {
						decide(ret, lw, pf, info)
					}
				}
				lw.WalkBody(lit.Body, f)
			}
		}
	}
	w.WalkBody(fd.Decl.Body, nil)
	if n == 0 {
		r.Bad(rule, c, p.Pos(fd.Decl.Pos()), "the removal decision (an append to the keys to delete, a delete in the loop over the map, or maps.DeleteFunc on it) was not found")
	}
}

// repSelectorAtomizer gives canonical atoms to the tests on a representative peer's selectors, by the field the tested
// value derives from (locals with a single definition in scope unfolded):
//
//	len(X.RepresentativePodLabelSelector.MatchExpressions) > 0   expr:pod      (Ns: expr:ns)
//	S.Empty() with S built from ..PodLabelSelector.MatchLabels    emptysel:pod
//	S.Matches(l)                                                  match:pod
func repSelectorAtomizer(info *types.Info, scope ast.Node) func(w *facts.Walker, e ast.Expr) facts.Formula {
	which := func(e ast.Expr) string {
		s := Unfold(info, scope, e)
		pod, ns := strings.Contains(s, "RepresentativePodLabelSelector"), strings.Contains(s, "RepresentativeNsLabelSelector")
		switch {
		case pod && !ns:
			return "pod"
		case ns && !pod:
			return "ns"
		}
		return ""
	}
	return func(w *facts.Walker, e ast.Expr) facts.Formula {
		switch x := e.(type) {
		case *ast.BinaryExpr:
			// len(<sel>.MatchExpressions) > 0 | != 0 | == 0
			l, rr := ast.Unparen(x.X), ast.Unparen(x.Y)
			cl, ok := l.(*ast.CallExpr)
			if !ok || len(cl.Args) != 1 {
				return nil
			}
			if id, isId := cl.Fun.(*ast.Ident); !isId || id.Name != "len" {
				return nil
			}
			if !strings.HasSuffix(Unfold(info, scope, cl.Args[0]), ".MatchExpressions") {
				return nil
			}
			k := which(cl.Args[0])
			if v, isC := core.ConstString(info, rr); !isC || v != "0" || k == "" {
				return nil
			}
			switch x.Op {
			case token.GTR, token.NEQ:
				return facts.Atom("expr:" + k)
			case token.EQL:
				return facts.Not{X: facts.Atom("expr:" + k)}
			}
		case *ast.CallExpr:
			se, ok := ast.Unparen(x.Fun).(*ast.SelectorExpr)
			if !ok {
				return nil
			}
			fn := core.Callee(info, x)
			if fn == nil || fn.Pkg() == nil || !strings.HasSuffix(fn.Pkg().Path(), "apimachinery/pkg/labels") {
				return nil
			}
			k := which(se.X)
			if k == "" {
				return nil
			}
			switch core.RefName(fn) {
			case "Empty":
				return facts.Atom("emptysel:" + k)
			case "Matches":
				return facts.Atom("match:" + k)
			}
		}
		return nil
	}
}

// repRemovalFacts: the canonical literals entailed by f, plus - for every multi-statement boolean module helper whose
// positive answer f entails - the literals that ALL positive answers of that helper entail.
func repRemovalFacts(p *core.Program, info *types.Info, w *facts.Walker, f facts.Formula, depth int) map[string]bool {
	have := map[string]bool{}
	bg := facts.MkAnd(f, facts.LenImplications(f))
	for _, a := range facts.Atoms(bg) {
		for _, pre := range []string{"expr:", "emptysel:", "match:"} {
			if strings.HasPrefix(a, pre) {
				if facts.Entails(bg, facts.Atom(a)) {
					have[a] = true
				}
				if facts.Entails(bg, facts.Not{X: facts.Atom(a)}) {
					have["!"+a] = true
				}
			}
		}
	}
	if depth >= 2 || w == nil {
		return have
	}
	for call, atom := range w.CallAtoms {
		if !facts.Entails(bg, facts.Atom(atom)) {
			continue
		}
		fn := core.Callee(info, call)
		hd := p.ByObj[fn]
		if hd == nil {
			continue
		}
		hinfo := hd.Pkg.TypesInfo
		hw := facts.NewWalker(hinfo)
		hw.Atomize = repSelectorAtomizer(hinfo, hd.Decl.Body)
		hw.Inline = true
		var common map[string]bool
		hw.OnExit = func(st int, ret *ast.ReturnStmt, hf facts.Formula) {
			if hw.FuncLitDepth > 0 || ret == nil || len(ret.Results) != 1 {
				return
			}
			if v, isC := core.ConstString(hinfo, ret.Results[0]); isC && v == "false" {
				return
			}
			pf := facts.MkAnd(hf, hw.Cond(ret.Results[0]))
			if !facts.Satisfiable(pf) {
				return
			}
			got := repRemovalFacts(p, hinfo, hw, pf, depth+1)
			if common == nil {
				common = got
				return
			}
			for k := range common {
				if !got[k] {
					delete(common, k)
				}
			}
		}
		hw.WalkBody(hd.Decl.Body, nil)
		for k := range common {
			have[k] = true
		}
	}
	return have
}

// SelectorsFullMatchTable: a negative answer is given only after the
// "empty rule selector matches everything" row has been ruled out.
func SelectorsFullMatchTable(p *core.Program, r *core.Report, rule string) {
	fd := p.Func(core.PkgK8s, "", "SelectorsFullMatch")
	if fd == nil {
		r.Lost(rule, "k8s.SelectorsFullMatch")
		return
	}
	info := fd.Pkg.TypesInfo
	w := facts.NewWalker(info)
	n := 0
	rowsTrue := 0
	w.OnStmt = func(s ast.Stmt, f facts.Formula) {
		ret, ok := s.(*ast.ReturnStmt)
		if !ok || len(ret.Results) != 2 || !core.IsNil(info, ret.Results[1]) {
			return
		}
		v, ok := core.ConstString(info, ret.Results[0])
		if !ok {
			return
		}
		if v == "true" {
			rowsTrue++
			return
		}
		n++
		emptyRuledOut := false
		for _, a := range facts.Atoms(f) {
			if strings.HasPrefix(a, "b:") && strings.HasSuffix(a, ".Empty()") && facts.Entails(f, facts.Not{X: facts.Atom(a)}) {
				emptyRuledOut = true
			}
		}
		r.Check(emptyRuledOut, rule, fmt.Sprintf("%s: negative answer #%d only for a non-empty rule selector", fd.Key(), n), p.Pos(ret.Pos()),
			"false is returned only after ruleSelector.Empty() was tested and is false", "false is returned before the rows 'same selector' / 'empty rule selector matches everything' are decided: a rule with an empty selector no longer matches representative peers generated from other rules")
	}
	w.WalkBody(fd.Decl.Body, nil)
	r.Check(rowsTrue >= 3, rule, fd.Key()+": has the three positive rows (same reference, empty rule selector, equal requirements)", p.Pos(fd.Decl.Pos()), fmt.Sprintf("%d positive returns", rowsTrue), "a positive row of the selector-match table is gone")
	r.Floor(rule, 3)
}

// ContainmentSeesNamedPorts is C07-d: the test that suppresses an exposure
// entry covered by the entire-cluster entry reaches PortSet.ContainedIn, which
// consults the named ports of both sides.
func ContainmentSeesNamedPorts(p *core.Program, r *core.Report, rule string) {
	// anchored by the effect: the function of package connlist that decides whether a connection towards a
	// representative peer is already covered - it obtains the peer's entire-cluster connection from the engine and
	// asks ConnectionSet.ContainedIn with it as the operand (whatever the function is called, helper or inlined)
	nSup := 0
	for _, fd := range p.FuncsIn(core.PkgConnlist) {
		info := fd.Pkg.TypesInfo
		var general types.Object
		ast.Inspect(fd.Decl.Body, func(n ast.Node) bool {
			as, ok := n.(*ast.AssignStmt)
			if !ok || len(as.Rhs) != 1 {
				return true
			}
			if c, isC := ast.Unparen(as.Rhs[0]).(*ast.CallExpr); isC {
				if fn := core.Callee(info, c); fn != nil && core.RefName(fn) == "GetPeerXgressEntireClusterConn" {
					if id, isId := as.Lhs[0].(*ast.Ident); isId {
						general = info.ObjectOf(id)
					}
				}
			}
			return true
		})
		if general == nil {
			continue
		}
		usesContained, otherTest := false, ""
		ast.Inspect(fd.Decl.Body, func(n ast.Node) bool {
			c, ok := n.(*ast.CallExpr)
			if !ok {
				return true
			}
			fn := core.Callee(info, c)
			if fn == nil || core.RecvTypeName(fn.Type().(*types.Signature)) != "ConnectionSet" {
				return true
			}
			for _, a := range c.Args {
				if id, isId := ast.Unparen(a).(*ast.Ident); isId && info.ObjectOf(id) == general {
					if core.RefName(fn) == "ContainedIn" {
						usesContained = true
					} else {
						otherTest = core.RefName(fn)
					}
				}
			}
			return true
		})
		if !usesContained && otherTest == "" {
			continue // reads the entire-cluster connection for another purpose (recording it)
		}
		nSup++
		r.Check(usesContained && otherTest == "", rule, fd.Key()+": suppression is decided by ConnectionSet.ContainedIn", p.Pos(fd.Decl.Pos()), "resolved callee", "the suppression test compares with the entire-cluster connection by "+otherTest+", not by ConnectionSet.ContainedIn")
	}
	if nSup == 0 {
		r.Bad(rule, "connlist: suppression is decided by ConnectionSet.ContainedIn", "-", "no function of package connlist compares a connection with the peer's entire-cluster connection by ConnectionSet.ContainedIn")
	}
	sums := Effects(p, core.PkgCommon)
	m := p.Func(core.PkgCommon, "PortSet", "ContainedIn")
	if m == nil {
		r.Lost(rule, "(*PortSet).ContainedIn")
		return
	}
	s := sums[m.Obj]
	for side, label := range []string{"receiver", "operand"} {
		got := map[string]bool{}
		if s != nil {
			for f := range s.FieldReads[side] {
				got[f] = true
			}
		}
		r.Check(got["Ports"] && got["NamedPorts"], rule, fmt.Sprintf("%s: consults Ports+NamedPorts of its %s", m.Key(), label), p.Pos(m.Decl.Pos()), "reads "+setNames(got),
			"the containment test ignores the named ports of its "+label+": an exposure entry with a named port is wrongly considered covered by the entire-cluster entry and dropped")
	}
	// ConnectionSet.ContainedIn delegates per protocol
	cm := p.Func(core.PkgCommon, "ConnectionSet", "ContainedIn")
	if cm != nil {
		delegates := false
		ast.Inspect(cm.Decl.Body, func(n ast.Node) bool {
			if c, ok := n.(*ast.CallExpr); ok {
				if fn := core.Callee(cm.Pkg.TypesInfo, c); fn == m.Obj {
					delegates = true
				}
			}
			return true
		})
		r.Check(delegates, rule, cm.Key()+": delegates to PortSet.ContainedIn per protocol", p.Pos(cm.Decl.Pos()), "", "ConnectionSet.ContainedIn no longer asks PortSet.ContainedIn")
	}
}
