// Command npverif decides structural necessary conditions of the properties
// C01..C19 of np-guard/netpol-analyzer by static analysis of /repo's current
// working tree. Nothing of the analysed code is executed.
package main

import (
	"encoding/json"
	"flag"
	"fmt"
	"os"
	"os/exec"
	"path/filepath"
	"runtime/debug"
	"sort"
	"strconv"
	"strings"
	"sync"
	"time"

	"npverif/internal/core"
	"npverif/internal/mutate"
	"npverif/internal/props"
)

func main() {
	if len(os.Args) < 2 {
		usage()
	}
	// the committed table of reference names (see core/refnames.go) sits next to the checker: <verif>/anchors_ref.json
	if v := os.Getenv("NPVERIF_REF"); v != "" {
		core.RefPath = v
	} else if exe, err := os.Executable(); err == nil {
		core.RefPath = filepath.Join(filepath.Dir(filepath.Dir(exe)), "anchors_ref.json")
	}
	switch os.Args[1] {
	case "ref-gen":
		// writes the reference table from the tree as it is now (run on the tree the rules were confirmed against)
		core.RefPath = ""
		prog, err := core.Load(envOr("NPVERIF_REPO", "/repo"), nil)
		if err != nil {
			fmt.Fprintln(os.Stderr, "ref-gen:", err)
			os.Exit(2)
		}
		out := filepath.Join(envOr("NPVERIF_DIR", "/verif"), "anchors_ref.json")
		if err := prog.WriteRefTable(out); err != nil {
			fmt.Fprintln(os.Stderr, "ref-gen:", err)
			os.Exit(2)
		}
		fmt.Println("written", out)
	case "check":
		os.Exit(cmdCheck(os.Args[2:]))
	case "variant":
		os.Exit(cmdVariant(os.Args[2:]))
	case "variants":
		os.Exit(cmdVariants(os.Args[2:]))
	case "replay":
		os.Exit(cmdReplay(os.Args[2:]))
	case "list-rules":
		for _, p := range props.All() {
			fmt.Printf("%s  %s\n", p.ID, p.Title)
		}
	case "dbg-facts":
		// dbg-facts <pkg-suffix> <recv> <fn> <call>
		dbgFacts(envOr("NPVERIF_REPO", "/repo"), core.ModPath+"/"+os.Args[2], os.Args[3], os.Args[4], os.Args[5])
	case "whole":
		wf, err := core.Whole(envOr("NPVERIF_REPO", "/repo"))
		if err != nil {
			fmt.Fprintln(os.Stderr, err)
			os.Exit(2)
		}
		b, _ := json.MarshalIndent(wf, "", " ")
		fmt.Println(string(b))
	case "variants-count":
		for _, pr := range props.All() {
			must, benign := 0, 0
			for _, v := range mutate.For(pr.ID) {
				if v.Benign {
					benign++
				} else {
					must++
				}
			}
			fmt.Printf("%s %d %d\n", pr.ID, must, benign)
		}
	case "sweep":
		os.Exit(cmdSweep(os.Args[2:]))
	case "warm":
		if _, err := core.Load(envOr("NPVERIF_REPO", "/repo"), nil); err != nil {
			fmt.Fprintln(os.Stderr, "warm:", err)
			os.Exit(2)
		}
	default:
		usage()
	}
}

func usage() {
	fmt.Fprintln(os.Stderr, "usage: npverif check -p <id>|-all [-tier quick|thorough] | variant -p <id> -name <n> | variants [-p <id>] | replay <file> | list-rules | warm")
	os.Exit(2)
}

func envOr(k, d string) string {
	if v := os.Getenv(k); v != "" {
		return v
	}
	return d
}

func seed() int64 {
	if s := os.Getenv("VERIF_SEED"); s != "" {
		if n, err := strconv.ParseInt(s, 10, 64); err == nil {
			return n
		}
	}
	return 0
}

// runProperty runs one property's rules on a loaded program, converting panics
// of the checker into failures (never into silence).
func runProperty(pr *props.Property, prog *core.Program) (rep *core.Report) {
	rep = core.NewReport(pr.ID)
	defer func() {
		if e := recover(); e != nil {
			rep.Add("checker", "checker panic in "+pr.ID, "-", core.Undecided, fmt.Sprintf("%v\n%s", e, debug.Stack()))
		}
	}()
	pr.Run(prog, rep)
	return rep
}

func units(prog *core.Program) map[string]int {
	return map[string]int{"packages": len(prog.Pkgs), "functions": len(prog.Funcs), "named_types": len(prog.Named)}
}

func cmdCheck(args []string) int {
	fs := flag.NewFlagSet("check", flag.ExitOnError)
	id := fs.String("p", "", "property id")
	all := fs.Bool("all", false, "all properties (one load)")
	tier := fs.String("tier", envOr("VERIF_TIER", "quick"), "quick|thorough")
	repo := fs.String("repo", envOr("NPVERIF_REPO", "/repo"), "repository under analysis")
	verif := fs.String("verif", envOr("NPVERIF_DIR", "/verif"), "verification directory")
	dump := fs.String("dump", "", "print every obligation of this rule (prefix match), discharged ones included")
	_ = fs.Parse(args)
	if *tier != "quick" && *tier != "thorough" {
		*tier = "quick"
	}
	var list []*props.Property
	if *all {
		list = props.All()
	} else if pr := props.Get(*id); pr != nil {
		list = []*props.Property{pr}
	} else {
		fmt.Fprintf(os.Stderr, "unknown property %q\n", *id)
		return 2
	}
	start := time.Now()
	ff, err := core.LoadFindings(filepath.Join(*verif, "known_findings.json"))
	if err != nil {
		fmt.Fprintln(os.Stderr, err)
		return 2
	}
	prog, err := core.Load(*repo, nil)
	exit := 0
	for _, pr := range list {
		t0 := time.Now()
		if *all {
			t0 = time.Now()
		} else {
			t0 = start
		}
		var rep *core.Report
		if err != nil {
			rep = core.NewReport(pr.ID)
			rep.Add("load", "load and type-check of "+*repo, "-", core.Undecided, err.Error())
		} else {
			rep = runProperty(pr, prog)
			if prog.Canonicalised > 0 {
				rep.Extra["statements_canonicalised_at_load"] = prog.Canonicalised
				rep.Assume(fmt.Sprintf("%d statements of the shape `r := e; return r` / `c := e; if c {...}` (the local used nowhere else) were read as `return e` / `if e {...}` (core/canon.go)", prog.Canonicalised))
			}
			if rn := prog.Renames(); len(rn) > 0 {
				rep.Extra["renames_recognised"] = rn
				rep.Assume("identifiers of the reference tree that are absent here were matched to new identifiers of the same package / receiver / struct with the same signature or type and read under their reference names: " + strings.Join(rn, "; "))
			}
		}
		var th map[string]interface{}
		if *tier == "thorough" && err == nil {
			th = runThorough(pr.ID, *repo, *verif)
		}
		u := map[string]int{}
		if prog != nil {
			u = units(prog)
		}
		out, ferr := rep.Finish(*verif, *tier, seed(), ff, t0, u, th)
		if ferr != nil {
			fmt.Fprintln(os.Stderr, "evidence:", ferr)
			return 2
		}
		for _, l := range out.Lines {
			fmt.Println(l)
		}
		if *dump != "" {
			for _, o := range rep.Obs {
				if strings.HasPrefix(o.Rule, *dump) {
					fmt.Printf("OBLIGATION %s rule=%s at %s: %s :: %s\n", o.Status, o.Rule, o.Pos, o.Construct, o.Reason)
				}
			}
		}
		fmt.Printf("%s %s: %d obligations, %d violations, %d known findings (%.1fs)\n", pr.ID, *tier, len(rep.Obs), len(out.Violations), len(out.Known), time.Since(t0).Seconds())
		if out.ExitCode != 0 {
			exit = 1
		}
	}
	return exit
}

// ---------------------------------------------------------------- variants (thorough tier)

type variantResult struct {
	Name      string `json:"name"`
	Outcome   string `json:"outcome"` // detected | survived | invalid | not-applicable | silent(benign) | false-alarm(benign)
	Rule      string `json:"expected_rule,omitempty"`
	Fired     string `json:"fired,omitempty"`
	Construct string `json:"construct,omitempty"`
	Why       string `json:"why,omitempty"`
	Detail    string `json:"detail,omitempty"`
}

// runVariant applies one variant in memory and runs the property on it.
func runVariant(v mutate.Variant, repo, verif string) variantResult {
	res := variantResult{Name: v.Name, Rule: v.Rule, Why: v.Why}
	ov, err := v.Apply(repo)
	if err != nil {
		res.Outcome = "not-applicable"
		res.Detail = err.Error()
		return res
	}
	prog, err := core.Load(repo, ov)
	if err != nil {
		res.Outcome = "invalid"
		res.Detail = err.Error()
		return res
	}
	pr := props.Get(v.Property)
	if pr == nil {
		res.Outcome = "invalid"
		res.Detail = "unknown property"
		return res
	}
	rep := runProperty(pr, prog)
	ff, _ := core.LoadFindings(filepath.Join(verif, "known_findings.json"))
	var fired []core.Obligation
	for _, o := range rep.Obs {
		if o.Status == core.Discharged || o.Status == core.Excepted {
			continue
		}
		if o.Status == core.Violation && ff.Open(o) != nil {
			continue
		}
		fired = append(fired, o)
	}
	// floors
	for rule, n := range rep.Floors {
		if rep.RuleCounts[rule] < n {
			fired = append(fired, core.Obligation{Rule: rule, Construct: "instance floor", Status: core.Undecided})
		}
	}
	if v.Benign {
		if len(fired) == 0 {
			res.Outcome = "silent(benign)"
		} else {
			res.Outcome = "false-alarm(benign)"
			res.Fired = fired[0].Rule
			res.Construct = fired[0].Construct
		}
		return res
	}
	if len(fired) == 0 {
		res.Outcome = "survived"
		return res
	}
	res.Outcome = "detected"
	pick := fired[0]
	for _, o := range fired {
		if v.Rule != "" && strings.HasPrefix(o.Rule, v.Rule) {
			pick = o
			break
		}
	}
	res.Fired = pick.Rule
	res.Construct = pick.Construct
	if v.Rule != "" && !strings.HasPrefix(pick.Rule, v.Rule) {
		res.Detail = "reported by a different rule than expected"
	}
	return res
}

func cmdVariant(args []string) int {
	fs := flag.NewFlagSet("variant", flag.ExitOnError)
	id := fs.String("p", "", "property id")
	name := fs.String("name", "", "variant name")
	repo := fs.String("repo", envOr("NPVERIF_REPO", "/repo"), "")
	verif := fs.String("verif", envOr("NPVERIF_DIR", "/verif"), "")
	_ = fs.Parse(args)
	v, ok := mutate.Find(*id, *name)
	if !ok {
		fmt.Fprintln(os.Stderr, "no such variant")
		return 2
	}
	res := runVariant(v, *repo, *verif)
	b, _ := json.Marshal(res)
	fmt.Println(string(b))
	return 0
}

// runVariantsParallel runs the variants of a property in sub-processes (one
// program image each, so memory is returned after every variant).
func runVariantsParallel(id, repo, verif string, par int) []variantResult {
	vs := mutate.For(id)
	out := make([]variantResult, len(vs))
	self, _ := os.Executable()
	sem := make(chan struct{}, par)
	var wg sync.WaitGroup
	for i, v := range vs {
		wg.Add(1)
		sem <- struct{}{}
		go func(i int, v mutate.Variant) {
			defer wg.Done()
			defer func() { <-sem }()
			cmd := exec.Command(self, "variant", "-p", id, "-name", v.Name, "-repo", repo, "-verif", verif)
			cmd.Env = os.Environ()
			b, err := cmd.Output()
			var r variantResult
			if err != nil || json.Unmarshal(lastLine(b), &r) != nil {
				r = variantResult{Name: v.Name, Outcome: "invalid", Detail: fmt.Sprintf("sub-process: %v %s", err, string(b))}
			}
			out[i] = r
		}(i, v)
	}
	wg.Wait()
	return out
}

func lastLine(b []byte) []byte {
	s := strings.TrimSpace(string(b))
	if i := strings.LastIndex(s, "\n"); i >= 0 {
		s = s[i+1:]
	}
	return []byte(s)
}

func runThorough(id, repo, verif string) map[string]interface{} {
	res := runVariantsParallel(id, repo, verif, 8)
	counts := map[string]int{}
	for _, r := range res {
		counts[r.Outcome]++
	}
	out := map[string]interface{}{}
	if id == "C18" || id == "C12" {
		if wf, err := core.Whole(repo); err == nil {
			out["whole_program"] = wf
		} else {
			out["whole_program"] = map[string]string{"error": err.Error()}
		}
	}
	if id == "C12" {
		out["generic_tools"] = crossRef(repo)
	}
	// behaviour-preserving edits applied to the whole module at once: the property's rules must stay silent
	sweeps := map[string]interface{}{"what": "each sweep applies one behaviour-preserving edit to EVERY function of the module in memory (a no-op statement first / before every statement / before every return; every local, parameter and named result renamed; every unexported function, method, struct field and package variable renamed at once, which the reference-name table must recognise; a trailing `if c { S }` of a loop or result-less function turned into a guard clause; `if x := e; c` split; a tagless switch turned into an if-chain; every returned expression, every call-valued argument and every if condition named by a local first) and re-runs the property's rules: a report here is a brittleness of a rule, not a violation of the property"}
	self, _ := os.Executable()
	for _, kind := range []string{"noop-first", "noop-each", "noop-before-return", "rename-locals", "rename-members", "guard-invert", "ifinit-split", "switch-to-if", "ret-local", "arg-local", "cond-local", "return-swap", "if-to-switch", "lit-split"} {
		cmd := exec.Command(self, "sweep", kind)
		cmd.Env = append(os.Environ(), "NPVERIF_SWEEP_PROP="+id, "NPVERIF_REPO="+repo, "NPVERIF_DIR="+verif)
		b, _ := cmd.CombinedOutput()
		var lines []string
		all := strings.Split(strings.TrimSpace(string(b)), "\n")
		for i, l := range all {
			if i == len(all)-1 || !strings.HasPrefix(l, "sweep ") {
				lines = append(lines, l) // progress lines of the sweep itself are not reports
			}
		}
		last := lines[len(lines)-1]
		entry := map[string]interface{}{"result": last}
		if len(lines) > 1 {
			if len(lines) > 6 {
				lines = lines[:6]
			}
			entry["reports"] = lines[:len(lines)-1]
		}
		sweeps[kind] = entry
	}
	out["benign_sweeps"] = sweeps
	out["sensitivity"] = map[string]interface{}{
		"what":     "sensitivity: each variant is a small edit of the current sources applied in memory (go/packages overlay); the rules must report it. Survivors are gaps of the checker, not violations of the property; benign variants must stay silent.",
		"variants": res,
		"counts":   counts,
	}
	return out
}

func cmdVariants(args []string) int {
	fs := flag.NewFlagSet("variants", flag.ExitOnError)
	id := fs.String("p", "", "property id (default all)")
	repo := fs.String("repo", envOr("NPVERIF_REPO", "/repo"), "")
	verif := fs.String("verif", envOr("NPVERIF_DIR", "/verif"), "")
	_ = fs.Parse(args)
	var ids []string
	if *id != "" {
		ids = []string{*id}
	} else {
		for _, p := range props.All() {
			ids = append(ids, p.ID)
		}
	}
	bad := 0
	for _, pid := range ids {
		res := runVariantsParallel(pid, *repo, *verif, 12)
		sort.SliceStable(res, func(i, j int) bool { return res[i].Outcome < res[j].Outcome })
		for _, r := range res {
			fmt.Printf("%s %-22s %-40s %s %s %s\n", pid, r.Outcome, r.Name, r.Fired, r.Construct, r.Detail)
			if r.Outcome != "detected" && r.Outcome != "silent(benign)" {
				bad++
			}
		}
	}
	if bad > 0 {
		return 1
	}
	return 0
}

// ---------------------------------------------------------------- replay

func cmdReplay(args []string) int {
	if len(args) < 1 {
		usage()
	}
	b, err := os.ReadFile(args[0])
	if err != nil {
		fmt.Fprintln(os.Stderr, err)
		return 2
	}
	var o core.Obligation
	if err := json.Unmarshal(b, &o); err != nil {
		fmt.Fprintln(os.Stderr, err)
		return 2
	}
	pr := props.Get(o.Property)
	if pr == nil {
		fmt.Fprintln(os.Stderr, "unknown property", o.Property)
		return 2
	}
	prog, err := core.Load(envOr("NPVERIF_REPO", "/repo"), nil)
	if err != nil {
		fmt.Println("load failed:", err)
		return 1
	}
	rep := runProperty(pr, prog)
	for _, c := range rep.Obs {
		if c.Rule == o.Rule && c.Construct == o.Construct {
			fmt.Printf("%s rule=%s at %s\n  construct: %s\n  status: %s\n  reason: %s\n", c.Property, c.Rule, c.Pos, c.Construct, c.Status, c.Reason)
			for _, p := range c.Path {
				fmt.Println("  path:", p)
			}
			if c.Status == core.Discharged || c.Status == core.Excepted {
				return 0
			}
			return 1
		}
	}
	fmt.Printf("obligation %s / %s is no longer produced on the current tree\n", o.Rule, o.Construct)
	return 0
}
