package main

import (
	"bytes"
	"fmt"
	"go/ast"
	"go/format"
	"go/parser"
	"go/token"
	"os"
	"path/filepath"
	"strings"
)

// Restructuring sweeps: a behaviour-preserving change of SHAPE applied wherever it fits in the module's production code
// (in memory), then every property is run. They exercise what the refactorings of the benign rounds exercised by hand:
//
//	guard-invert   : a loop body / result-less function body ending in `if c { S }`  ->  `if !(c) { continue|return }; S`
//	else-flatten   : `if c { ...; return|continue|break } else { T }`                 ->  `if c { ... }; T`
//	ifinit-split   : `if x := e; c { ... }`                                           ->  `{ x := e; if c { ... } }`
//	switch-to-if   : a tagless switch without fallthrough/break                       ->  an if / else-if chain
//	ret-local      : `return f(x), nil`                                               ->  `r0_ := f(x); return r0_, nil`
//	return-swap    : a function body ending `if c { S; return X }; return Y`            ->  `if !(c) { return Y }; S; return X`
//	if-to-switch   : `if a { A } else if b { B } else { C }`                              ->  `switch { case a: A; case b: B; default: C }`
//	lit-split      : `x := &T{A: a, B: b}`                                              ->  `x := &T{}; x.A = a; x.B = b`
//	cond-local     : `if c { ... }` (not an else-if)                                    ->  `c1_ := c; if c1_ { ... }`
//	arg-local      : `x := f(a, g(b))` / `f(a, g(b))`                                 ->  `a1_ := g(b); x := f(a, a1_)`
var astSweeps = map[string]func(f *ast.File) int{
	"guard-invert": sweepGuardInvert,
	"else-flatten": sweepElseFlatten,
	"ifinit-split": sweepIfInitSplit,
	"switch-to-if": sweepSwitchToIf,
	"ret-local":    sweepRetLocal,
	"arg-local":    sweepArgLocal,
	"cond-local":   sweepCondLocal,
	"return-swap":  sweepReturnSwap,
	"if-to-switch": sweepIfToSwitch,
	"lit-split":    sweepLitSplit,
}

func cmdSweepAST(kind string) int {
	repo := envOr("NPVERIF_REPO", "/repo")
	overlay := map[string][]byte{}
	edits := 0
	_ = filepath.Walk(filepath.Join(repo, "pkg"), func(path string, fi os.FileInfo, err error) error {
		if err != nil || fi.IsDir() || !strings.HasSuffix(path, ".go") || strings.HasSuffix(path, "_test.go") {
			return nil
		}
		src, err := os.ReadFile(path)
		if err != nil {
			return nil
		}
		fset := token.NewFileSet()
		f, err := parser.ParseFile(fset, path, src, parser.ParseComments)
		if err != nil {
			return nil
		}
		n := astSweeps[kind](f)
		if n == 0 {
			return nil
		}
		// comments are dropped from the edited copy: their positions no longer fit the restructured statements
		f.Comments = nil
		var b bytes.Buffer
		if err := format.Node(&b, fset, f); err != nil {
			fmt.Println("sweep: print", path, err)
			return nil
		}
		edits += n
		overlay[path] = b.Bytes()
		if d := os.Getenv("NPVERIF_SWEEP_DUMP"); d != "" {
			_ = os.MkdirAll(d, 0o755)
			_ = os.WriteFile(filepath.Join(d, strings.ReplaceAll(strings.TrimPrefix(path, repo+"/"), "/", "__")), b.Bytes(), 0o644)
		}
		return nil
	})
	fmt.Printf("sweep %s: %d sites rewritten\n", kind, edits)
	return runSweepOverlay(kind, repo, overlay)
}

// definesAtTop: a statement of the list declares a name in the list's own scope (moving the list into an outer block could
// then clash with, or capture, a name of that block).
func definesAtTop(list []ast.Stmt) bool {
	for _, s := range list {
		switch x := s.(type) {
		case *ast.AssignStmt:
			if x.Tok == token.DEFINE {
				return true
			}
		case *ast.DeclStmt:
			return true
		case *ast.LabeledStmt:
			return true
		}
	}
	return false
}

func notExpr(c ast.Expr) ast.Expr {
	return &ast.UnaryExpr{Op: token.NOT, X: &ast.ParenExpr{X: c}}
}

// eachStmtList calls fn on every statement list (block, case clause, comm clause) under n, with the node that owns it.
func eachStmtList(n ast.Node, fn func(owner ast.Node, list *[]ast.Stmt)) {
	ast.Inspect(n, func(m ast.Node) bool {
		switch x := m.(type) {
		case *ast.BlockStmt:
			fn(x, &x.List)
		case *ast.CaseClause:
			fn(x, &x.Body)
		case *ast.CommClause:
			fn(x, &x.Body)
		}
		return true
	})
}

func sweepGuardInvert(f *ast.File) int {
	n := 0
	invert := func(body *ast.BlockStmt, jump ast.Stmt) {
		if body == nil || len(body.List) == 0 {
			return
		}
		ifs, ok := body.List[len(body.List)-1].(*ast.IfStmt)
		if !ok || ifs.Else != nil || ifs.Init != nil || len(ifs.Body.List) == 0 || definesAtTop(ifs.Body.List) {
			return
		}
		guard := &ast.IfStmt{Cond: notExpr(ifs.Cond), Body: &ast.BlockStmt{List: []ast.Stmt{jump}}}
		body.List = append(append(body.List[:len(body.List)-1:len(body.List)-1], guard), ifs.Body.List...)
		n++
	}
	ast.Inspect(f, func(m ast.Node) bool {
		switch x := m.(type) {
		case *ast.ForStmt:
			invert(x.Body, &ast.BranchStmt{Tok: token.CONTINUE})
		case *ast.RangeStmt:
			invert(x.Body, &ast.BranchStmt{Tok: token.CONTINUE})
		case *ast.FuncDecl:
			if x.Type.Results == nil || len(x.Type.Results.List) == 0 {
				invert(x.Body, &ast.ReturnStmt{})
			}
		}
		return true
	})
	return n
}

func endsInJump(b *ast.BlockStmt) bool {
	if b == nil || len(b.List) == 0 {
		return false
	}
	switch x := b.List[len(b.List)-1].(type) {
	case *ast.ReturnStmt:
		return true
	case *ast.BranchStmt:
		return x.Tok == token.CONTINUE || x.Tok == token.BREAK || x.Tok == token.GOTO
	}
	return false
}

func sweepElseFlatten(f *ast.File) int {
	n := 0
	eachStmtList(f, func(owner ast.Node, list *[]ast.Stmt) {
		var out []ast.Stmt
		for i, s := range *list {
			ifs, ok := s.(*ast.IfStmt)
			els, isBlock := (*ast.BlockStmt)(nil), false
			if ok {
				els, isBlock = ifs.Else.(*ast.BlockStmt)
			}
			// only as the last statement of its list, so that what follows the if is not affected by names the else branch declares
			if ok && isBlock && ifs.Init == nil && endsInJump(ifs.Body) && !definesAtTop(els.List) && i == len(*list)-1 {
				ifs.Else = nil
				out = append(out, ifs)
				out = append(out, els.List...)
				n++
				continue
			}
			out = append(out, s)
		}
		*list = out
	})
	return n
}

func sweepIfInitSplit(f *ast.File) int {
	n := 0
	eachStmtList(f, func(owner ast.Node, list *[]ast.Stmt) {
		for i, s := range *list {
			ifs, ok := s.(*ast.IfStmt)
			if !ok || ifs.Init == nil {
				continue
			}
			init := ifs.Init
			ifs.Init = nil
			(*list)[i] = &ast.BlockStmt{List: []ast.Stmt{init, ifs}}
			n++
		}
	})
	return n
}

func sweepSwitchToIf(f *ast.File) int {
	n := 0
	eachStmtList(f, func(owner ast.Node, list *[]ast.Stmt) {
		for i, s := range *list {
			sw, ok := s.(*ast.SwitchStmt)
			if !ok || sw.Tag != nil || sw.Init != nil || len(sw.Body.List) == 0 {
				continue
			}
			usable := true
			// a break / fallthrough that belongs to this switch cannot be carried over
			ast.Inspect(sw.Body, func(m ast.Node) bool {
				switch x := m.(type) {
				case *ast.BranchStmt:
					if x.Tok == token.FALLTHROUGH || (x.Tok == token.BREAK && x.Label == nil) {
						usable = false
					}
				case *ast.ForStmt, *ast.RangeStmt, *ast.SwitchStmt, *ast.TypeSwitchStmt, *ast.SelectStmt, *ast.FuncLit:
					// an unlabelled break inside belongs to that statement; keep it simple and skip such switches only when
					// a break is found at any depth (conservative)
				}
				return usable
			})
			var def *ast.CaseClause
			var cases []*ast.CaseClause
			for _, c := range sw.Body.List {
				cc := c.(*ast.CaseClause)
				if cc.List == nil {
					def = cc
				} else {
					cases = append(cases, cc)
				}
			}
			// the default clause must be the last one for the textual order to be the evaluation order
			if !usable || len(cases) == 0 || (def != nil && sw.Body.List[len(sw.Body.List)-1] != ast.Stmt(def)) {
				continue
			}
			var first, cur *ast.IfStmt
			for _, cc := range cases {
				var cond ast.Expr
				for _, e := range cc.List {
					if cond == nil {
						cond = e
					} else {
						cond = &ast.BinaryExpr{X: cond, Op: token.LOR, Y: &ast.ParenExpr{X: e}}
					}
				}
				ifs := &ast.IfStmt{Cond: cond, Body: &ast.BlockStmt{List: cc.Body}}
				if first == nil {
					first = ifs
				} else {
					cur.Else = ifs
				}
				cur = ifs
			}
			if def != nil {
				cur.Else = &ast.BlockStmt{List: def.Body}
			}
			(*list)[i] = first
			n++
		}
	})
	return n
}

func sweepRetLocal(f *ast.File) int {
	n := 0
	trivial := func(e ast.Expr) bool {
		switch x := ast.Unparen(e).(type) {
		case *ast.Ident, *ast.BasicLit:
			return true
		case *ast.UnaryExpr:
			_, lit := x.X.(*ast.BasicLit)
			return lit
		}
		return false
	}
	for _, d := range f.Decls {
		fd, ok := d.(*ast.FuncDecl)
		if !ok || fd.Body == nil || fd.Type.Results == nil {
			continue
		}
		var resTypes []ast.Expr
		for _, fl := range fd.Type.Results.List {
			k := len(fl.Names)
			if k == 0 {
				k = 1
			}
			for i := 0; i < k; i++ {
				resTypes = append(resTypes, fl.Type)
			}
		}
		var rewrite func(list *[]ast.Stmt)
		var walk func(nd ast.Node)
		rewrite = func(list *[]ast.Stmt) {
			var out []ast.Stmt
			for _, s := range *list {
				ret, ok := s.(*ast.ReturnStmt)
				if !ok || len(ret.Results) != len(resTypes) {
					out = append(out, s)
					continue
				}
				hoisted := false
				for i, e := range ret.Results {
					if trivial(e) {
						continue
					}
					// declared with the result's type, so that untyped constants and interface conversions stay what they were
					id := ast.NewIdent(fmt.Sprintf("r%d_", i))
					out = append(out, &ast.DeclStmt{Decl: &ast.GenDecl{Tok: token.VAR, Specs: []ast.Spec{
						&ast.ValueSpec{Names: []*ast.Ident{id}, Type: resTypes[i], Values: []ast.Expr{e}}}}})
					ret.Results[i] = ast.NewIdent(id.Name)
					hoisted = true
				}
				if hoisted {
					n++
				}
				out = append(out, ret)
			}
			*list = out
		}
		walk = func(nd ast.Node) {
			ast.Inspect(nd, func(m ast.Node) bool {
				switch x := m.(type) {
				case *ast.FuncLit:
					return false // its returns belong to another signature
				case *ast.BlockStmt:
					rewrite(&x.List)
				case *ast.CaseClause:
					rewrite(&x.Body)
				case *ast.CommClause:
					rewrite(&x.Body)
				}
				return true
			})
		}
		walk(fd.Body)
	}
	return n
}

// sweepArgLocal names the call-valued arguments of a call that is a statement of its own (or the single right-hand side of
// an assignment): the argument is evaluated at the same point, only through a local.
func sweepArgLocal(f *ast.File) int {
	n := 0
	ctr := 0
	eachStmtList(f, func(owner ast.Node, list *[]ast.Stmt) {
		var out []ast.Stmt
		for _, s := range *list {
			var call *ast.CallExpr
			switch x := s.(type) {
			case *ast.ExprStmt:
				call, _ = x.X.(*ast.CallExpr)
			case *ast.AssignStmt:
				if len(x.Rhs) == 1 {
					call, _ = x.Rhs[0].(*ast.CallExpr)
				}
			}
			if call == nil || len(call.Args) < 2 {
				out = append(out, s)
				continue
			}
			if id, ok := call.Fun.(*ast.Ident); ok && (id.Name == "make" || id.Name == "new") {
				out = append(out, s) // the first argument is a type
				continue
			}
			hoisted := false
			for i, a := range call.Args {
				inner, ok := a.(*ast.CallExpr)
				if !ok {
					continue
				}
				if _, isLit := inner.Fun.(*ast.FuncLit); isLit {
					continue
				}
				// earlier arguments that are not plain names/literals would be evaluated after the hoisted one: keep the order
				pure := true
				for _, b := range call.Args[:i] {
					switch ast.Unparen(b).(type) {
					case *ast.Ident, *ast.BasicLit, *ast.SelectorExpr:
					default:
						pure = false
					}
				}
				if !pure {
					break
				}
				ctr++
				id := ast.NewIdent(fmt.Sprintf("a%d_", ctr))
				out = append(out, &ast.AssignStmt{Lhs: []ast.Expr{id}, Tok: token.DEFINE, Rhs: []ast.Expr{inner}})
				call.Args[i] = ast.NewIdent(id.Name)
				hoisted = true
			}
			if hoisted {
				n++
			}
			out = append(out, s)
		}
		*list = out
	})
	return n
}

// sweepCondLocal names the condition of every if statement that stands in a statement list (an else-if would be evaluated
// earlier than before, so those are left alone).
func sweepCondLocal(f *ast.File) int {
	n := 0
	eachStmtList(f, func(owner ast.Node, list *[]ast.Stmt) {
		var out []ast.Stmt
		for _, s := range *list {
			ifs, ok := s.(*ast.IfStmt)
			if ok && ifs.Init == nil {
				if _, plain := ast.Unparen(ifs.Cond).(*ast.Ident); !plain {
					n++
					id := ast.NewIdent(fmt.Sprintf("c%d_", n))
					out = append(out, &ast.AssignStmt{Lhs: []ast.Expr{id}, Tok: token.DEFINE, Rhs: []ast.Expr{ifs.Cond}})
					ifs.Cond = ast.NewIdent(id.Name)
				}
			}
			out = append(out, s)
		}
		*list = out
	})
	return n
}

// sweepReturnSwap exchanges the guarded and the final return of a function body.
func sweepReturnSwap(f *ast.File) int {
	n := 0
	for _, d := range f.Decls {
		fd, ok := d.(*ast.FuncDecl)
		if !ok || fd.Body == nil || len(fd.Body.List) < 2 {
			continue
		}
		l := fd.Body.List
		final, isRet := l[len(l)-1].(*ast.ReturnStmt)
		ifs, isIf := l[len(l)-2].(*ast.IfStmt)
		if !isRet || !isIf || ifs.Else != nil || ifs.Init != nil || len(ifs.Body.List) == 0 || definesAtTop(ifs.Body.List) {
			continue
		}
		if _, endsRet := ifs.Body.List[len(ifs.Body.List)-1].(*ast.ReturnStmt); !endsRet {
			continue
		}
		guard := &ast.IfStmt{Cond: notExpr(ifs.Cond), Body: &ast.BlockStmt{List: []ast.Stmt{final}}}
		fd.Body.List = append(append(l[:len(l)-2:len(l)-2], guard), ifs.Body.List...)
		n++
	}
	return n
}

// sweepIfToSwitch turns every if / else-if chain with an else branch into a tagless switch (chains containing an
// unlabelled break, which would then leave the switch instead of the loop, are left alone).
func sweepIfToSwitch(f *ast.File) int {
	n := 0
	eachStmtList(f, func(owner ast.Node, list *[]ast.Stmt) {
		for i, s := range *list {
			ifs, ok := s.(*ast.IfStmt)
			if !ok {
				continue
			}
			var clauses []ast.Stmt
			usable := true
			cur := ifs
			for cur != nil {
				if cur.Init != nil {
					usable = false
					break
				}
				clauses = append(clauses, &ast.CaseClause{List: []ast.Expr{cur.Cond}, Body: cur.Body.List})
				switch e := cur.Else.(type) {
				case *ast.IfStmt:
					cur = e
				case *ast.BlockStmt:
					clauses = append(clauses, &ast.CaseClause{Body: e.List})
					cur = nil
				default:
					cur = nil
				}
			}
			if !usable || len(clauses) < 2 {
				continue
			}
			ast.Inspect(ifs, func(m ast.Node) bool {
				if b, ok := m.(*ast.BranchStmt); ok && b.Tok == token.BREAK && b.Label == nil {
					usable = false
				}
				return usable
			})
			if !usable {
				continue
			}
			(*list)[i] = &ast.SwitchStmt{Body: &ast.BlockStmt{List: clauses}}
			n++
		}
	})
	return n
}

// sweepLitSplit turns a keyed struct literal that defines a local into an empty literal followed by field assignments.
func sweepLitSplit(f *ast.File) int {
	n := 0
	eachStmtList(f, func(owner ast.Node, list *[]ast.Stmt) {
		var out []ast.Stmt
		for _, s := range *list {
			out = append(out, s)
			as, ok := s.(*ast.AssignStmt)
			if !ok || as.Tok != token.DEFINE || len(as.Lhs) != 1 || len(as.Rhs) != 1 {
				continue
			}
			id, ok := as.Lhs[0].(*ast.Ident)
			if !ok || id.Name == "_" {
				continue
			}
			rhs := as.Rhs[0]
			if ue, isU := rhs.(*ast.UnaryExpr); isU && ue.Op == token.AND {
				rhs = ue.X
			}
			cl, ok := rhs.(*ast.CompositeLit)
			if !ok || len(cl.Elts) == 0 {
				continue
			}
			switch cl.Type.(type) {
			case *ast.Ident, *ast.SelectorExpr:
			default:
				continue
			}
			var assigns []ast.Stmt
			usable := true
			for _, el := range cl.Elts {
				kv, isKV := el.(*ast.KeyValueExpr)
				if !isKV {
					usable = false
					break
				}
				key, isID := kv.Key.(*ast.Ident)
				if !isID {
					usable = false
					break
				}
				// a value that mentions the local being defined would change meaning
				mentions := false
				ast.Inspect(kv.Value, func(m ast.Node) bool {
					if x, isX := m.(*ast.Ident); isX && x.Name == id.Name {
						mentions = true
					}
					return true
				})
				if mentions {
					usable = false
					break
				}
				assigns = append(assigns, &ast.AssignStmt{Lhs: []ast.Expr{&ast.SelectorExpr{X: ast.NewIdent(id.Name), Sel: ast.NewIdent(key.Name)}}, Tok: token.ASSIGN, Rhs: []ast.Expr{kv.Value}})
			}
			if !usable {
				continue
			}
			cl.Elts = nil
			out = append(out, assigns...)
			n++
		}
		*list = out
	})
	return n
}
