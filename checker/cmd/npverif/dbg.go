package main

import (
	"fmt"
	"go/ast"
	"os"

	"npverif/internal/core"
	"npverif/internal/facts"
	"npverif/internal/rules"
)

// dbgFacts prints the facts at every call named callName inside pkg.recv.fn.
func dbgFacts(repo, pkg, recv, fn, callName string) {
	p, err := core.Load(repo, nil)
	if err != nil {
		fmt.Println(err)
		os.Exit(2)
	}
	fd := p.Func(pkg, recv, fn)
	if fd == nil {
		fmt.Println("no such func")
		return
	}
	ast.Inspect(fd.Decl.Body, func(n ast.Node) bool {
		c, ok := n.(*ast.CallExpr)
		if !ok {
			return true
		}
		if core.ExprStr(c.Fun) == callName || (len(callName) > 0 && callName[0] == '.' && len(core.ExprStr(c.Fun)) >= len(callName) && core.ExprStr(c.Fun)[len(core.ExprStr(c.Fun))-len(callName):] == callName) {
			fm, _, found := rules.FactsAt(fd, c, nil)
			fmt.Println(p.Pos(c.Pos()), found, facts.String(fm))
		}
		return true
	})
}
