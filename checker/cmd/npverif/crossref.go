package main

import (
	"context"
	"os/exec"
	"strings"
	"time"

	"npverif/internal/core"
)

// crossRef runs the generic analysers once on the repository and records what
// they say. Informational: the tools know nothing about the properties; their
// reports are listed next to the rule verdicts so that a reader can compare.
func crossRef(repo string) map[string]interface{} {
	out := map[string]interface{}{"what": "generic analysers run on the same tree for cross-reference only; none of them decides a property and none of their reports changes the exit status"}
	tools := [][]string{
		{"go", "vet", "./..."},
		{"staticcheck", "./..."},
		{"errcheck", "./..."},
		{"nilaway", "-include-pkgs=github.com/np-guard/netpol-analyzer", "./..."},
	}
	for _, t := range tools {
		ctx, cancel := context.WithTimeout(context.Background(), 8*time.Minute)
		cmd := exec.CommandContext(ctx, t[0], t[1:]...)
		cmd.Dir = repo
		cmd.Env = core.Env()
		b, err := cmd.CombinedOutput()
		cancel()
		lines := []string{}
		for _, l := range strings.Split(string(b), "\n") {
			l = strings.TrimSpace(l)
			if l == "" || strings.HasPrefix(l, "#") {
				continue
			}
			// keep production code only
			if strings.Contains(l, "_test.go") {
				continue
			}
			lines = append(lines, l)
		}
		entry := map[string]interface{}{"reports_on_production_code": len(lines)}
		if err != nil {
			entry["exit"] = err.Error()
		}
		if len(lines) > 25 {
			lines = lines[:25]
		}
		entry["first_reports"] = lines
		out[strings.Join(t[:1], " ")+map[bool]string{true: " vet", false: ""}[t[0] == "go"]] = entry
	}
	return out
}
