package main

import (
	"bytes"
	"fmt"
	"go/ast"
	"go/parser"
	"go/token"
	"go/types"
	"os"
	"path/filepath"
	"sort"
	"strings"

	"npverif/internal/core"
	"npverif/internal/props"
)

// cmdSweep applies a behaviour-preserving edit to EVERY function of the module at once (in memory) and runs all
// properties: any report is a brittleness of a rule (a false alarm in waiting), not a property violation.
//
//	noop-first : `_ = 0` as first statement of every function body
//	noop-last  : `_ = 0` before the closing brace of every function body that does not end in a return
func cmdSweep(args []string) int {
	kind := "noop-first"
	if len(args) > 0 {
		kind = args[0]
	}
	if kind == "rename-locals" {
		return cmdSweepRename("locals")
	}
	if kind == "rename-members" {
		return cmdSweepRename("members")
	}
	if _, ok := astSweeps[kind]; ok {
		return cmdSweepAST(kind)
	}
	repo := envOr("NPVERIF_REPO", "/repo")
	overlay := map[string][]byte{}
	_ = filepath.Walk(filepath.Join(repo, "pkg"), func(path string, fi os.FileInfo, err error) error {
		if err != nil || fi.IsDir() || !strings.HasSuffix(path, ".go") || strings.HasSuffix(path, "_test.go") {
			return nil
		}
		src, err := os.ReadFile(path)
		if err != nil {
			return nil
		}
		fset := token.NewFileSet()
		f, err := parser.ParseFile(fset, path, src, parser.ParseComments)
		if err != nil {
			return nil
		}
		var offs []int
		for _, d := range f.Decls {
			fd, ok := d.(*ast.FuncDecl)
			if !ok || fd.Body == nil {
				continue
			}
			switch kind {
			case "noop-before-return":
				// `_ = 0` in front of every return statement that is a direct element of a block
				ast.Inspect(fd.Body, func(n ast.Node) bool {
					var list []ast.Stmt
					switch x := n.(type) {
					case *ast.BlockStmt:
						list = x.List
					case *ast.CaseClause:
						list = x.Body
					case *ast.FuncLit:
						return false
					}
					for _, st := range list {
						if _, isRet := st.(*ast.ReturnStmt); isRet {
							offs = append(offs, fset.Position(st.Pos()).Offset)
						}
					}
					return true
				})
			case "noop-each":
				// `_ = 0` in front of every statement that is a direct element of a block or case clause
				ast.Inspect(fd.Body, func(n ast.Node) bool {
					var list []ast.Stmt
					switch x := n.(type) {
					case *ast.BlockStmt:
						list = x.List
					case *ast.CaseClause:
						list = x.Body
					case *ast.FuncLit:
						return false
					}
					for _, st := range list {
						switch st.(type) {
						case *ast.LabeledStmt, *ast.CaseClause, *ast.CommClause:
							continue
						}
						offs = append(offs, fset.Position(st.Pos()).Offset)
					}
					return true
				})
			case "noop-first":
				offs = append(offs, fset.Position(fd.Body.Lbrace).Offset+1)
			case "noop-last":
				if n := len(fd.Body.List); n > 0 {
					if _, isRet := fd.Body.List[n-1].(*ast.ReturnStmt); isRet {
						continue
					}
				}
				if fd.Type.Results != nil && len(fd.Type.Results.List) > 0 {
					continue
				}
				offs = append(offs, fset.Position(fd.Body.Rbrace).Offset)
			}
		}
		if len(offs) == 0 {
			return nil
		}
		sort.Sort(sort.Reverse(sort.IntSlice(offs)))
		var b bytes.Buffer
		out := src
		for _, o := range offs {
			b.Reset()
			b.Write(out[:o])
			if kind == "noop-before-return" || kind == "noop-each" {
				b.WriteString("_ = 0\n")
			} else {
				b.WriteString("\n_ = 0\n")
			}
			b.Write(out[o:])
			out = append([]byte(nil), b.Bytes()...)
		}
		overlay[path] = out
		return nil
	})
	return runSweepOverlay(kind, repo, overlay)
}

// runSweepOverlay loads the tree with the edited files and runs every property: any report is a false alarm.
func runSweepOverlay(kind, repo string, overlay map[string][]byte) int {
	prog, err := core.Load(repo, overlay)
	if err != nil {
		fmt.Println("sweep: load:", err)
		return 2
	}
	ff, _ := core.LoadFindings(filepath.Join(envOr("NPVERIF_DIR", "/verif"), "known_findings.json"))
	bad := 0
	fmt.Printf("sweep %s: %d returns canonicalised at load\n", kind, prog.Canonicalised)
	for _, pr := range props.All() {
		if only := os.Getenv("NPVERIF_SWEEP_PROP"); only != "" && pr.ID != only {
			continue
		}
		rep := runProperty(pr, prog)
		for _, o := range rep.Obs {
			if o.Status == core.Discharged || o.Status == core.Excepted {
				continue
			}
			if o.Status == core.Violation && ff.Open(o) != nil {
				continue
			}
			bad++
			fmt.Printf("%s %s %s :: %s\n", pr.ID, o.Rule, o.Construct, o.Reason)
		}
		for rule, n := range rep.Floors {
			if rep.RuleCounts[rule] < n {
				bad++
				fmt.Printf("%s %s floor %d < %d\n", pr.ID, rule, rep.RuleCounts[rule], n)
			}
		}
	}
	fmt.Printf("sweep %s: %d files edited, %d reports\n", kind, len(overlay), bad)
	if bad > 0 {
		return 1
	}
	return 0
}

// cmdSweepRename renames every local variable, parameter and named result of the module's production code
// (name -> nameQ) in memory and runs all properties: a rule that depends on what a local is called reports here.
//
// mode "members": every unexported function, method, (non-embedded) struct field and package-level variable instead
// (name -> nameQ), all at once: the reference-name machinery (core/refnames.go) must recognise every one of them.
func cmdSweepRename(mode string) int {
	repo := envOr("NPVERIF_REPO", "/repo")
	prog, err := core.Load(repo, nil)
	if err != nil {
		fmt.Println(err)
		return 2
	}
	type edit struct{ off int }
	perFile := map[string][]int{}
	for _, pk := range prog.Pkgs {
		if strings.Contains(pk.PkgPath, "/internal/testutils") || strings.Contains(pk.PkgPath, "/internal/examples") {
			continue
		}
		info := pk.TypesInfo
		note := func(id *ast.Ident, o types.Object) {
			if mode == "members" {
				if o == nil || o.Pkg() == nil || !strings.HasPrefix(o.Pkg().Path(), core.ModPath) || id.Name == "_" || id.Name == "main" || id.Name == "init" || token.IsExported(id.Name) || id.Name != o.Name() {
					return
				}
				switch x := o.(type) {
				case *types.Func:
				case *types.Var:
					if x.IsField() {
						if x.Embedded() {
							return
						}
					} else if x.Parent() != x.Pkg().Scope() {
						return
					}
				default:
					return
				}
				ps := pk.Fset.Position(id.Pos())
				if strings.HasSuffix(ps.Filename, "_test.go") {
					return
				}
				perFile[ps.Filename] = append(perFile[ps.Filename], ps.Offset+len(id.Name))
				return
			}
			v, ok := o.(*types.Var)
			if !ok || v.IsField() || v.Pkg() == nil || v.Parent() == nil || v.Parent() == v.Pkg().Scope() || id.Name == "_" {
				return
			}
			ps := pk.Fset.Position(id.Pos())
			if strings.HasSuffix(ps.Filename, "_test.go") {
				return
			}
			perFile[ps.Filename] = append(perFile[ps.Filename], ps.Offset+len(id.Name))
		}
		for id, o := range info.Defs {
			if o != nil {
				note(id, o)
			}
		}
		for id, o := range info.Uses {
			note(id, o)
		}
		// the symbolic variable of a type switch has no object of its own
		for _, f := range pk.Syntax {
			if mode == "members" {
				break
			}
			ast.Inspect(f, func(n ast.Node) bool {
				if ts, ok := n.(*ast.TypeSwitchStmt); ok {
					if as, ok := ts.Assign.(*ast.AssignStmt); ok && len(as.Lhs) == 1 {
						if id, ok := as.Lhs[0].(*ast.Ident); ok && id.Name != "_" {
							ps := pk.Fset.Position(id.Pos())
							if !strings.HasSuffix(ps.Filename, "_test.go") {
								perFile[ps.Filename] = append(perFile[ps.Filename], ps.Offset+len(id.Name))
							}
						}
					}
				}
				return true
			})
		}
	}
	overlay := map[string][]byte{}
	for file, offs := range perFile {
		src, err := os.ReadFile(file)
		if err != nil {
			continue
		}
		sort.Sort(sort.Reverse(sort.IntSlice(offs)))
		out := src
		prev := -1
		for _, o := range offs {
			if o == prev {
				continue
			}
			prev = o
			out = append(out[:o:o], append([]byte("Q"), out[o:]...)...)
		}
		overlay[file] = out
	}
	prog2, err := core.Load(repo, overlay)
	if err != nil {
		fmt.Println("sweep rename: load:", err)
		return 2
	}
	if mode == "members" {
		for _, u := range unresolvedRenames(prog2) {
			fmt.Println("not recognised:", u)
		}
	}
	ff, _ := core.LoadFindings(filepath.Join(envOr("NPVERIF_DIR", "/verif"), "known_findings.json"))
	bad := 0
	for _, pr := range props.All() {
		if only := os.Getenv("NPVERIF_SWEEP_PROP"); only != "" && pr.ID != only {
			continue
		}
		rep := runProperty(pr, prog2)
		for _, o := range rep.Obs {
			if o.Status == core.Discharged || o.Status == core.Excepted {
				continue
			}
			if o.Status == core.Violation && ff.Open(o) != nil {
				continue
			}
			bad++
			fmt.Printf("%s %s %s :: %s\n", pr.ID, o.Rule, o.Construct, o.Reason)
		}
		for rule, n := range rep.Floors {
			if rep.RuleCounts[rule] < n {
				bad++
				fmt.Printf("%s %s floor %d < %d\n", pr.ID, rule, rep.RuleCounts[rule], n)
			}
		}
	}
	fmt.Printf("sweep rename-%s: %d files edited, %d reports (%d renames recognised)\n", mode, len(overlay), bad, len(prog2.Renames()))
	if bad > 0 {
		return 1
	}
	return 0
}

// unresolvedRenames lists the unexported functions of the reference table that are neither present nor recognised.
func unresolvedRenames(prog *core.Program) []string {
	return prog.UnresolvedRefs()
}
