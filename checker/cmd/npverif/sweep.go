package main

import (
	"bytes"
	"fmt"
	"go/ast"
	"go/parser"
	"go/token"
	"os"
	"path/filepath"
	"sort"
	"strings"

	"npverif/internal/core"
	"npverif/internal/props"
)

// cmdSweep applies a behaviour-preserving edit to EVERY function of the module at once (in memory) and runs all
// properties: any report is a brittleness of a rule (a false alarm in waiting), not a property violation.
//
//	noop-first : `_ = 0` as first statement of every function body
//	noop-last  : `_ = 0` before the closing brace of every function body that does not end in a return
func cmdSweep(args []string) int {
	kind := "noop-first"
	if len(args) > 0 {
		kind = args[0]
	}
	repo := envOr("NPVERIF_REPO", "/repo")
	overlay := map[string][]byte{}
	_ = filepath.Walk(filepath.Join(repo, "pkg"), func(path string, fi os.FileInfo, err error) error {
		if err != nil || fi.IsDir() || !strings.HasSuffix(path, ".go") || strings.HasSuffix(path, "_test.go") {
			return nil
		}
		src, err := os.ReadFile(path)
		if err != nil {
			return nil
		}
		fset := token.NewFileSet()
		f, err := parser.ParseFile(fset, path, src, parser.ParseComments)
		if err != nil {
			return nil
		}
		var offs []int
		for _, d := range f.Decls {
			fd, ok := d.(*ast.FuncDecl)
			if !ok || fd.Body == nil {
				continue
			}
			switch kind {
			case "noop-first":
				offs = append(offs, fset.Position(fd.Body.Lbrace).Offset+1)
			case "noop-last":
				if n := len(fd.Body.List); n > 0 {
					if _, isRet := fd.Body.List[n-1].(*ast.ReturnStmt); isRet {
						continue
					}
				}
				if fd.Type.Results != nil && len(fd.Type.Results.List) > 0 {
					continue
				}
				offs = append(offs, fset.Position(fd.Body.Rbrace).Offset)
			}
		}
		if len(offs) == 0 {
			return nil
		}
		sort.Sort(sort.Reverse(sort.IntSlice(offs)))
		var b bytes.Buffer
		out := src
		for _, o := range offs {
			b.Reset()
			b.Write(out[:o])
			b.WriteString("\n_ = 0\n")
			b.Write(out[o:])
			out = append([]byte(nil), b.Bytes()...)
		}
		overlay[path] = out
		return nil
	})
	prog, err := core.Load(repo, overlay)
	if err != nil {
		fmt.Println("sweep: load:", err)
		return 2
	}
	ff, _ := core.LoadFindings(filepath.Join(envOr("NPVERIF_DIR", "/verif"), "known_findings.json"))
	bad := 0
	for _, pr := range props.All() {
		rep := runProperty(pr, prog)
		for _, o := range rep.Obs {
			if o.Status == core.Discharged || o.Status == core.Excepted {
				continue
			}
			if o.Status == core.Violation && ff.Open(o) != nil {
				continue
			}
			bad++
			fmt.Printf("%s %s %s :: %s\n", pr.ID, o.Rule, o.Construct, o.Reason)
		}
		for rule, n := range rep.Floors {
			if rep.RuleCounts[rule] < n {
				bad++
				fmt.Printf("%s %s floor %d < %d\n", pr.ID, rule, rep.RuleCounts[rule], n)
			}
		}
	}
	fmt.Printf("sweep %s: %d files edited, %d reports\n", kind, len(overlay), bad)
	if bad > 0 {
		return 1
	}
	return 0
}
