#!/bin/bash
# usage: try_patch.sh <dir-with-patch.diff> [property]   - applies the patch to /repo, runs the checks, reverts
set -u
D=$1
cd /repo && git apply "$D/patch.diff" || { echo "does not apply"; exit 2; }
if [ $# -ge 2 ]; then /verif/bin/npverif check -p "$2" -verif /tmp/npv-try 2>/dev/null | grep "^VIOLATION rule\|^UNDEC\|^ANCHOR" | cut -c1-${COLS:-330}
else mkdir -p /tmp/npv-try && cp /verif/known_findings.json /tmp/npv-try/ && /verif/bin/npverif check -all -verif /tmp/npv-try | grep "^VIOLATION rule\|^UNDEC\|^ANCHOR" | cut -c1-${COLS:-330}; fi
git -C /repo checkout -- .
git -C /repo status --short | grep -v "^??" | head -3
