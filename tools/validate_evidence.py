#!/usr/bin/env python3
"""Validates /verif/MANIFEST.json and every /verif/evidence/*.json against the schemas in /root/.vp (run with python3-vt)."""
import json, glob, sys
import jsonschema
bad = 0
jsonschema.validate(json.load(open("/verif/MANIFEST.json")), json.load(open("/root/.vp/MANIFEST.schema.json")))
sch = json.load(open("/root/.vp/EVIDENCE.schema.json"))
for f in sorted(glob.glob("/verif/evidence/C*.json")):
    try:
        jsonschema.validate(json.load(open(f)), sch)
    except jsonschema.ValidationError as e:
        bad += 1
        print(f, "INVALID:", e.message[:200], list(e.path))
print("evidence files invalid:", bad)
sys.exit(1 if bad else 0)
