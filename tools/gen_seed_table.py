#!/usr/bin/env python3
"""Regenerates the seeded-change table of DESIGN.md section 9 (between <!-- seedtable --> markers) from
/verif/seeded/RESULTS.json (current detection), /verif/seeded/FIRST_SHOT.json (first-run detection) and the seeds' meta.json."""
import json, re, os
D = "/verif/DESIGN.md"
res = {r["seed"]: r for r in json.load(open("/verif/seeded/RESULTS.json"))}
first = json.load(open("/verif/seeded/FIRST_SHOT.json"))
rows = []
tot = {}
for seed in sorted(res, key=lambda x: (x.split("-")[0], x.split("-")[1])):
    r = res[seed]
    if r.get("status") != "kept":
        continue
    meta = json.load(open(f"/verif/seeded/{seed}/meta.json"))
    summ = (meta.get("summary") or "").replace("\n", " ").replace("|", "/")
    summ = re.sub(r"\s+", " ", summ)
    if len(summ) > 230:
        summ = summ[:227] + "..."
    prop = seed.split("-")[0]
    now = r.get("checks_fired") or []
    fs = first.get(seed)
    rnd = "1" if re.fullmatch(r"C\d\d-[ab]", seed) else seed.split("-")[1][1]
    t = tot.setdefault(rnd, {"n": 0, "own_first": 0, "any_first": 0, "own_now": 0, "any_now": 0})
    t["n"] += 1
    if fs is not None:
        t["own_first"] += prop in fs
        t["any_first"] += bool(fs)
    t["own_now"] += prop in now
    t["any_now"] += bool(now)
    rows.append(f"| {seed} | {summ} | {', '.join(fs) if fs else ('-' if fs is not None else '?')} | {', '.join(now) or '-'} |")
hdr = "| seed | change (as described by its author) | checks that fired on the first run | checks that fire now |\n|---|---|---|---|\n"
summ = "\n".join(f"* round {k}: {v['n']} confirmed seeds; first run: own property {v['own_first']}, any property {v['any_first']}; now: own property {v['own_now']}, any property {v['any_now']}." for k, v in sorted(tot.items()))
block = "<!-- seedtable -->\n" + summ + "\n\n" + hdr + "\n".join(rows) + "\n<!-- /seedtable -->\n"
s = open(D).read()
pat = re.compile(r"<!-- seedtable -->.*?<!-- /seedtable -->\n", re.S)
if pat.search(s):
    s = pat.sub(lambda m: block, s)
else:
    print("markers missing")
open(D, "w").write(s)
print(summ)
