#!/usr/bin/env python3
"""Generates /verif/MANIFEST.json from the table below (kept in one place so the
manifest stays valid while properties move from not_applicable to claimed)."""
import json, sys, os

ENV = "GOFLAGS=-mod=mod GOPROXY=off GOSUMDB=off GOTOOLCHAIN=local GOWORK=off"

# property id -> (technique, level text, level note, design ref)
CLAIMED = {}

def claim(pid, technique, text, note, ref):
    CLAIMED[pid] = (technique, text, note, ref)

# not yet claimed: pid -> reason
PENDING = {}

exec(open(os.path.join(os.path.dirname(__file__), "manifest_table.py")).read())

props = [json.loads(l) for l in open("/verif/properties.jsonl")]
ids = [p["id"] for p in props]

checks = []
for pid in ids:
    if pid not in CLAIMED:
        continue
    technique, text, note, ref = CLAIMED[pid]
    # the level text is the explanation the check itself writes (kept current with the rules that actually run);
    # the table text is the fallback before the first run
    try:
        ev = json.load(open(f"/verif/evidence/{pid}.json"))
        expl = ev["coverage"]["explanation"]
        if expl:
            text = expl
    except Exception:
        pass
    checks.append({
        "property_id": pid,
        "quick_cmd": f"./bin/npverif check -p {pid} -tier quick",
        "thorough_cmd": f"./bin/npverif check -p {pid} -tier thorough",
        "evidence_file": f"/verif/evidence/{pid}.json",
        "replay_cmd_template": "./bin/npverif replay {path}",
        "engine": "npverif",
        "level_claimed": {"category": "other", "text": text, "design_ref": ref},
        "level_note": note,
        "technique": technique,
    })

na = [{"property_id": pid, "reason": PENDING.get(pid, "no sound structural rule built for it in this round; see DESIGN.md section 6")}
      for pid in ids if pid not in CLAIMED]

manifest = {
    "version": 1,
    "setup_cmd": f"cd /verif/checker && {ENV} go build -o ../bin/npverif ./cmd/npverif && cd /verif && ./bin/npverif warm",
    "hooks": {
        "guard": "verif",
        "enable": "none needed: the checks are static analyses of /repo's working tree (go/packages + go/types + go/ssa); nothing of the repository is built with hooks or executed",
        "baseline_off_cmd": "cd /repo && GOFLAGS=-mod=mod GOPROXY=off GOSUMDB=off go test -json -vet=off -count=1 -timeout 25m ./...",
        "source_commits": [],
        "add_only": True,
    },
    "engines": [{
        "name": "npverif",
        "path": "/verif/checker",
        "serves_properties": [c["property_id"] for c in checks],
        "kind_free_text": "repository-specific static analyser (Go, golang.org/x/tools v0.29.0): typed-AST structural rules, a structured path-condition/typestate walker with truth-table entailment, module SSA for value identity, AST call graph with interface expansion; thorough tier adds in-memory overlay mutation of the current sources (sensitivity)",
    }],
    "checks": checks,
    "not_applicable": na,
    "notes": "All claims are at level 'other': structural necessary conditions of each property decided on the source for all inputs/orders/histories at once; the behaviour itself is not decided (DESIGN.md section 1). Genuine defects found by the rules are repaired by 'fix:' commits in /repo or listed in /verif/known_findings.json.",
}
json.dump(manifest, open("/verif/MANIFEST.json", "w"), indent=1)
print(f"claimed={len(checks)} not_applicable={len(na)}")
