#!/usr/bin/env python3
"""Records, once, what fired the first time a kept seed met the checks (seeded/FIRST_SHOT.json).
usage: first_shot_add.py r7    (adds the seeds whose letter starts with the tag and that have no entry yet)"""
import json, sys
tag = sys.argv[1]
fs = json.load(open('/verif/seeded/FIRST_SHOT.json'))
n = 0
for r in json.load(open('/verif/seeded/RESULTS.json')):
    s = r['seed']
    if s.split('-')[1].startswith(tag) and s not in fs and r.get('status', 'kept') == 'kept':
        fs[s] = r.get('checks_fired', [])
        n += 1
json.dump(fs, open('/verif/seeded/FIRST_SHOT.json', 'w'), indent=0, sort_keys=True)
print('added', n)
