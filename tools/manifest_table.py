# Table read by gen_manifest.py. claim(pid, technique, level text, level note, design ref)
for _pid in ["C%02d" % i for i in range(1, 20)]:
    PENDING[_pid] = "rules for this property are designed (DESIGN.md section 4) but not yet built and validated in this round; not claimed until the check is silent on the pinned tree and fires on its sensitivity variants"

NOTE_COMMON = "Trusted base: go/packages + go/types of the default Go toolchain; the structured path-condition walker of /verif/checker/internal/facts (no goto/labelled jumps in the module, re-checked); hand-written tables printed under coverage.trusted_base in the evidence. A violation names file:line, rule and construct; floors fail the check if a rule matches fewer sites than confirmed by hand."

claim("C12", "static nil-guard / totality analysis (typed AST, path-condition formulas with truth-table entailment, interprocedural requires-summaries)",
      "Structural necessary conditions of 'never panics', for all inputs at once: every dereference of an optional decoded API field, of a sometimes-nil module field, of a PeerType-dependent getter result, of an unchecked map lookup or of a value co-returned with an error is dominated by a guard; nil is not passed to dereferencing callees; single-value assertions and constant indexes cannot fail; no explicit panic/exit in library code; netset.IPBlockFromIPAddress is called on validated IPv4 only; call graph acyclic, loops counted. It does not decide panics inside third-party code or resource exhaustion.",
      NOTE_COMMON + " Assumes receivers non-nil and no aliasing mutation of decoded objects between guard and use.", "DESIGN.md 3(E2), 4(C12)")
claim("C15", "static typestate / must-pass-through analysis of engine state (cache invalidation, sorted-by-priority invariant)",
      "Structural necessary conditions of history-independence for all update/query interleavings at once: every function of package eval that writes state read by CheckIfAllowed passes a cache invalidation on every path to a normal return (read set and invalidators computed from the code); every exported entry that adds an admin network policy returns with the slice re-sorted; delete paths do not dereference absent objects (E2). It does not decide the answers themselves, lru eviction, or verdict changes through pod fields outside the cache key.",
      NOTE_COMMON + " Pod-granular cache bookkeeping is accepted as invalidation for podsMap only (cache key embeds namespace, owner and label hash).", "DESIGN.md 3(E4), 4(C15)")
PENDING.pop("C12", None); PENDING.pop("C15", None)

claim("C11", "static effect/alias/field-coverage analysis on module SSA + canonical-form typestate (typed AST)",
      "Structural necessary conditions of the set algebra for all operands and operation sequences at once: query operations write nothing and mutators write only their receiver; no operand pointer/map is stored into another set or returned, Copy is deep; every ConnectionSet method that can grow the protocol map re-establishes the canonical 'All Connections' form on every exit and the representation is written only inside package common; each binary PortSet operation consults the numeric and the named ports of both sides. It does not decide that results denote the right point sets (interval arithmetic is np-guard/models').",
      NOTE_COMMON + " Library effect table for interval.CanonicalSet read from np-guard/models v0.5.2. One open known finding (F16: PortSet.Intersection ignores named ports).", "DESIGN.md 3(E3), 4(C11)")
PENDING.pop("C11", None)
