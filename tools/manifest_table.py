# Table read by gen_manifest.py. claim(pid, technique, level text, level note, design ref)
for _pid in ["C%02d" % i for i in range(1, 20)]:
    PENDING[_pid] = "rules for this property are designed (DESIGN.md section 4) but not yet built and validated in this round; not claimed until the check is silent on the pinned tree and fires on its sensitivity variants"
