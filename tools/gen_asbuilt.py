#!/usr/bin/env python3
"""Regenerates the *as built* paragraphs of DESIGN.md (between <!-- asbuilt:Cnn --> markers) from the evidence
files of the last quick run and the variant tables: rule ids with instance counts, excepted / known findings,
number of variants. Run after `./bin/npverif check -all`."""
import json, re, subprocess, sys, os

D = "/verif/DESIGN.md"
s = open(D).read()
out = subprocess.run(["/verif/bin/npverif", "variants-count"], capture_output=True, text=True).stdout
vc = {}
for l in out.splitlines():
    a = l.split()
    if len(a) == 3:
        vc[a[0]] = (int(a[1]), int(a[2]))
ids = [f"C{i:02d}" for i in range(1, 20)]
for pid in ids:
    ev = json.load(open(f"/verif/evidence/{pid}.json"))
    c = ev["coverage"]
    rules = ", ".join(f"{k} {v}" for k, v in sorted(c["rule_instances"].items()))
    nv, nb = vc.get(pid, (0, 0))
    para = (f"*As built.* {c['explanation']}\n\n"
            f"Rule instances on the current tree: {rules}. Obligations {c['obligations']} "
            f"(discharged {c['discharged']}, excepted {c['excepted']} - each a single construct with its reason in the rule's table, "
            f"known findings {c['known_findings']}). Sensitivity variants: {nv} must-fire, {nb} benign (thorough tier).")
    block = f"<!-- asbuilt:{pid} -->\n{para}\n<!-- /asbuilt -->\n"
    pat = re.compile(rf"<!-- asbuilt:{pid} -->.*?<!-- /asbuilt -->\n", re.S)
    if pat.search(s):
        s = pat.sub(lambda m: block, s)
    else:
        # insert before the next "### C" / "## 5." heading after this property's heading
        m = re.search(rf"^### {pid} ", s, re.M)
        if not m:
            print("no section for", pid)
            continue
        n = re.search(r"^(### C\d\d |## 5\. )", s[m.end():], re.M)
        pos = m.end() + n.start()
        s = s[:pos] + block + "\n" + s[pos:]
open(D, "w").write(s)
print("ok")
