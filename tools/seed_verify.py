#!/usr/bin/env python3
"""Confirms seeded changes produced by the independent sub-agents and runs the
checks against them.

For each seed /tmp/seed-out/<id>/<x>.patch.diff (+ <x>_demo_test.go, <x>.meta.json):
  1. fresh scratch worktree of /repo HEAD (outside /repo and /verif), removed afterwards;
  2. patch applies, tree builds;
  3. the demonstration FAILS with the change;
  4. the existing suite has the baseline pass set with the change;
  5. the demonstration PASSES without the change;
  6. `npverif check -all -repo <worktree>` on the changed tree: which properties raise a VIOLATION.
Kept seeds are copied to /verif/seeded/<id>-<x>/ (patch.diff, demo, meta.json).

usage: seed_verify.py [--src /tmp/seed2-out --tag r2] [--only C01-a,C02-b] [--jobs N] [--recheck]   (--recheck: only step 6, for kept seeds)
"""
import json, os, re, subprocess, sys, tempfile, shutil, glob, concurrent.futures

ENV = dict(os.environ, GOFLAGS="-mod=mod", GOPROXY="off", GOSUMDB="off", GOTOOLCHAIN="local")
ENV.pop("GOWORK", None)
BASE = set(json.load(open("/root/.vp/BASELINE.json"))["stable_pass"])
OUT = "/verif/seeded"
SRC = "/tmp/seed-out"  # --src
TAG = ""  # --tag: prefix of the kept seed letter (round 2: r2 -> <id>-r2a)


def sh(cmd, cwd=None, timeout=1500):
    p = subprocess.run(cmd, shell=True, cwd=cwd, env=ENV, stdout=subprocess.PIPE, stderr=subprocess.STDOUT, text=True, timeout=timeout)
    return p.returncode, p.stdout


def suite(w):
    rc, out = sh("go test -json -vet=off -count=1 -timeout 25m ./...", cwd=w)
    passed = set()
    for l in out.splitlines():
        try:
            e = json.loads(l)
        except Exception:
            continue
        if e.get("Test") and e.get("Action") == "pass":
            passed.add(e["Package"] + "::" + e["Test"])
    missing = sorted(BASE - passed)
    return missing


def run_checks(w):
    tv = tempfile.mkdtemp(prefix="npv-seedv-")
    try:
        shutil.copy("/verif/known_findings.json", tv)
        rc, out = sh(f"/verif/bin/npverif check -all -repo {w} -verif {tv}")
        fired = sorted(set(re.findall(r"VIOLATION property=(C\d+)", out)))
        detail = [l for l in out.splitlines() if l.startswith(("VIOLATION rule", "UNDECIDED", "ANCHOR", "ASSUMPTION"))]
        return fired, detail[:12]
    finally:
        shutil.rmtree(tv, ignore_errors=True)


def verify(seed_id, x, recheck=False):
    sdir = f"{SRC}/{seed_id}"
    sx = x[len(TAG):] if TAG and x.startswith(TAG) else x
    kept = f"{OUT}/{seed_id}-{x}"
    if recheck:
        sdir = kept
        patch = f"{kept}/patch.diff"
        meta = json.load(open(f"{kept}/meta.json"))
    else:
        patch = f"{sdir}/{sx}.patch.diff"
        if not os.path.exists(patch):
            return {"seed": f"{seed_id}-{x}", "status": "no-patch"}
        try:
            meta = json.load(open(f"{sdir}/{sx}.meta.json"))
        except Exception:
            meta = {}
    res = {"seed": f"{seed_id}-{x}", "property": seed_id}
    w = tempfile.mkdtemp(prefix=f"npv-seed-{seed_id}{x}-")
    os.rmdir(w)
    rc, out = sh(f"git -C /repo worktree add -q --detach {w} HEAD")
    if rc != 0:
        res["status"] = "worktree-failed: " + out[-300:]
        return res
    try:
        rc, out = sh(f"git apply {patch}", cwd=w)
        if rc != 0:
            rc, out = sh(f"git apply --3way {patch}", cwd=w)
        if rc != 0:
            res["status"] = "patch-does-not-apply"
            res["detail"] = out[-400:]
            return res
        rc, out = sh("go build ./...", cwd=w)
        if rc != 0:
            res["status"] = "does-not-build"
            res["detail"] = out[-400:]
            return res
        fired, detail = run_checks(w)
        res["checks_fired"] = fired
        res["check_detail"] = detail
        if recheck:
            res["status"] = "kept"
            return res
        # demo
        demo = None
        for cand in (f"{sdir}/{sx}_demo_test.go",):
            if os.path.exists(cand):
                demo = cand
        loc = (meta.get("demo_location") or "") + " " + (meta.get("demo_cmd") or "")
        m = re.search(r"(pkg/[\w/]+?)/(?:[\w.]+_test\.go|\s|$|\))", loc) or re.search(r"\./(pkg/[\w/]+)/?", loc)
        t = re.search(r"-run\s+'?\"?([\w$^]+)", meta.get("demo_cmd") or "")
        if not demo or not m or not t:
            res["status"] = "demo-unparsed"
            res["detail"] = loc[:300]
            return res
        pkgdir, test = m.group(1).rstrip("/"), t.group(1)
        target = f"{w}/{pkgdir}/zz_seed_demo_test.go"
        shutil.copy(demo, target)
        rc1, out1 = sh(f"go test -vet=off -count=1 -run '{test}' ./{pkgdir}/", cwd=w, timeout=900)
        os.remove(target)
        res["demo_with_change"] = "FAIL" if rc1 != 0 else "pass"
        res["demo_output_with_change"] = "\n".join([l for l in out1.splitlines() if "---" in l or "violat" in l.lower() or "FAIL" in l][:8])
        missing = suite(w)
        res["suite_missing_from_baseline_pass_set"] = missing[:10]
        sh("git checkout -- . && git clean -fdq", cwd=w)
        shutil.copy(demo, target)
        rc2, out2 = sh(f"go test -vet=off -count=1 -run '{test}' ./{pkgdir}/", cwd=w, timeout=900)
        res["demo_without_change"] = "pass" if rc2 == 0 else "FAIL"
        if rc2 != 0:
            res["demo_output_without_change"] = out2[-600:]
        ok = rc1 != 0 and rc2 == 0 and not missing and "build failed" not in out1
        res["status"] = "kept" if ok else "rejected"
        if ok:
            os.makedirs(kept, exist_ok=True)
            shutil.copy(patch, f"{kept}/patch.diff")
            shutil.copy(demo, f"{kept}/demo_test.go")
            km = {
                "property": seed_id,
                "seed": f"{seed_id}-{x}",
                "summary": meta.get("summary"),
                "mechanism": meta.get("mechanism"),
                "needs_to_manifest": meta.get("needs_to_manifest"),
                "files_touched": meta.get("files_touched"),
                "demo": {"copy_to": f"{pkgdir}/", "run": f"go test -vet=off -count=1 -run '{test}' ./{pkgdir}/"},
                "confirmed_by_me": {
                    "repo_head": subprocess.check_output(["git", "-C", "/repo", "rev-parse", "--short", "HEAD"], text=True).strip(),
                    "what_i_ran": "fresh scratch worktree of /repo HEAD; git apply patch.diff; go build ./...; demo (fails); full suite go test -json -vet=off -count=1 ./... compared with BASELINE stable_pass (nothing missing); reverted; demo (passes); worktree removed",
                    "demo_with_change": res["demo_with_change"],
                    "demo_without_change": res["demo_without_change"],
                    "suite_with_change": "baseline pass set intact",
                    "demo_output_with_change": res["demo_output_with_change"],
                },
                "produced_by": "independent sub-agent given only the property text and its own worktree",
            }
            json.dump(km, open(f"{kept}/meta.json", "w"), indent=1)
        return res
    except subprocess.TimeoutExpired:
        res["status"] = "timeout"
        return res
    finally:
        sh(f"git -C /repo worktree remove --force {w}")
        shutil.rmtree(w, ignore_errors=True)


def main():
    global SRC, TAG
    only = None
    jobs = 5
    recheck = "--recheck" in sys.argv
    for i, a in enumerate(sys.argv):
        if a == "--only":
            only = set(sys.argv[i + 1].split(","))
        if a == "--jobs":
            jobs = int(sys.argv[i + 1])
        if a == "--src":
            SRC = sys.argv[i + 1]
        if a == "--tag":
            TAG = sys.argv[i + 1]
    seeds = []
    if recheck:
        for d in sorted(glob.glob(f"{OUT}/C*-*")):
            sid, x = os.path.basename(d).split("-")
            seeds.append((sid, x))
    else:
        for d in sorted(glob.glob(f"{SRC}/C*")):
            sid = os.path.basename(d)
            for x in ("a", "b"):
                if os.path.exists(f"{d}/{x}.patch.diff"):
                    seeds.append((sid, TAG + x))
    if only:
        seeds = [s for s in seeds if f"{s[0]}-{s[1]}" in only]
    results = []
    with concurrent.futures.ThreadPoolExecutor(max_workers=jobs) as ex:
        futs = {ex.submit(verify, sid, x, recheck): (sid, x) for sid, x in seeds}
        for f in concurrent.futures.as_completed(futs):
            r = f.result()
            results.append(r)
            own = r.get("property") in (r.get("checks_fired") or [])
            print(f"{r['seed']:8} {r.get('status'):22} fired={','.join(r.get('checks_fired') or []) or '-':20} own={'YES' if own else 'no '} demo+={r.get('demo_with_change')} demo-={r.get('demo_without_change')} {('suite-missing=' + str(len(r['suite_missing_from_baseline_pass_set']))) if r.get('suite_missing_from_baseline_pass_set') else ''}", flush=True)
    results.sort(key=lambda r: r["seed"])
    os.makedirs(OUT, exist_ok=True)
    prev = {}
    rp = f"{OUT}/RESULTS.json"
    if os.path.exists(rp):
        for r in json.load(open(rp)):
            prev[r["seed"]] = r
    for r in results:
        if recheck and r["seed"] in prev:
            prev[r["seed"]]["checks_fired"] = r.get("checks_fired")
            prev[r["seed"]]["check_detail"] = r.get("check_detail")
            # a patch that no longer applies or builds on the current HEAD must not keep its old "kept"
            prev[r["seed"]]["status"] = r.get("status")
        else:
            prev[r["seed"]] = r
    json.dump([prev[k] for k in sorted(prev)], open(rp, "w"), indent=1)


if __name__ == "__main__":
    main()
