#!/usr/bin/env python3
"""Confirms behaviour-preserving refactorings produced by independent sub-agents and runs the checks against them.

For each /tmp/ben1-out/<id>/<x>.patch.diff (+ <x>.meta.json):
  1. fresh scratch worktree of /repo HEAD, removed afterwards; patch applies, tree builds;
  2. the existing suite keeps the baseline pass set with the change;
  3. `npverif check -all -repo <worktree>`: every VIOLATION / UNDECIDED line is a FALSE ALARM candidate (to be triaged:
     either the refactoring is not behaviour-preserving after all, or a rule is brittle).
Kept patches are copied to /verif/seeded/benign/<id>-<x>/ (patch.diff, meta.json); results in /verif/seeded/BENIGN_RESULTS.json.

usage: benign_verify.py [--src /tmp/ben1-out] [--tag b1] [--only C01-b1a,...] [--jobs N] [--recheck]
"""
import json, os, re, subprocess, sys, tempfile, shutil, glob, concurrent.futures

ENV = dict(os.environ, GOFLAGS="-mod=mod", GOPROXY="off", GOSUMDB="off", GOTOOLCHAIN="local")
ENV.pop("GOWORK", None)
BASE = set(json.load(open("/root/.vp/BASELINE.json"))["stable_pass"])
OUT = "/verif/seeded/benign"
SRC = "/tmp/ben1-out"
TAG = "b1"


def sh(cmd, cwd=None, timeout=1500):
    p = subprocess.run(cmd, shell=True, cwd=cwd, env=ENV, stdout=subprocess.PIPE, stderr=subprocess.STDOUT, text=True, timeout=timeout)
    return p.returncode, p.stdout


def suite(w):
    rc, out = sh("go test -json -vet=off -count=1 -timeout 25m ./...", cwd=w)
    passed = set()
    for l in out.splitlines():
        try:
            e = json.loads(l)
        except Exception:
            continue
        if e.get("Test") and e.get("Action") == "pass":
            passed.add(e["Package"] + "::" + e["Test"])
    return sorted(BASE - passed)


def run_checks(w):
    tv = tempfile.mkdtemp(prefix="npv-benv-")
    try:
        shutil.copy("/verif/known_findings.json", tv)
        rc, out = sh(f"/verif/bin/npverif check -all -repo {w} -verif {tv}")
        fired = sorted(set(re.findall(r"VIOLATION property=(C\d+)", out)))
        detail = [l[:400] for l in out.splitlines() if l.startswith(("VIOLATION rule", "UNDECIDED", "ANCHOR"))]
        return fired, detail[:20]
    finally:
        shutil.rmtree(tv, ignore_errors=True)


def verify(pid, x, recheck):
    kept = f"{OUT}/{pid}-{x}"
    sx = x[len(TAG):] if x.startswith(TAG) else x
    if recheck:
        patch = f"{kept}/patch.diff"
        meta = json.load(open(f"{kept}/meta.json"))
    else:
        patch = f"{SRC}/{pid}/{sx}.patch.diff"
        try:
            meta = json.load(open(f"{SRC}/{pid}/{sx}.meta.json"))
        except Exception:
            meta = {}
    res = {"patch": f"{pid}-{x}", "property": pid, "kind": meta.get("kind"), "summary": (meta.get("summary") or "")[:400]}
    w = tempfile.mkdtemp(prefix=f"npv-ben-{pid}{x}-")
    os.rmdir(w)
    rc, out = sh(f"git -C /repo worktree add -q --detach {w} HEAD")
    if rc != 0:
        res["status"] = "worktree-failed"
        return res
    try:
        rc, out = sh(f"git apply {patch}", cwd=w)
        if rc != 0:
            rc, out = sh(f"git apply --3way {patch}", cwd=w)
        if rc != 0:
            res["status"] = "patch-does-not-apply"
            return res
        rc, out = sh("go build ./...", cwd=w)
        if rc != 0:
            res["status"] = "does-not-build"
            res["detail"] = out[-300:]
            return res
        fired, detail = run_checks(w)
        res["checks_fired"] = fired
        res["check_detail"] = detail
        if not recheck:
            missing = suite(w)
            res["suite_missing_from_baseline_pass_set"] = missing[:10]
            if missing:
                res["status"] = "rejected-suite"
                return res
            os.makedirs(kept, exist_ok=True)
            shutil.copy(patch, f"{kept}/patch.diff")
            meta["confirmed"] = "patch applies to /repo HEAD " + subprocess.check_output(["git", "-C", "/repo", "rev-parse", "--short", "HEAD"], text=True).strip() + ", builds, suite keeps the baseline pass set"
            json.dump(meta, open(f"{kept}/meta.json", "w"), indent=1)
        res["status"] = "kept"
        return res
    except subprocess.TimeoutExpired:
        res["status"] = "timeout"
        return res
    finally:
        sh(f"git -C /repo worktree remove --force {w}")
        shutil.rmtree(w, ignore_errors=True)


def main():
    global SRC, TAG
    only, jobs, recheck = None, 6, "--recheck" in sys.argv
    for i, a in enumerate(sys.argv):
        if a == "--only":
            only = set(sys.argv[i + 1].split(","))
        if a == "--jobs":
            jobs = int(sys.argv[i + 1])
        if a == "--src":
            SRC = sys.argv[i + 1]
        if a == "--tag":
            TAG = sys.argv[i + 1]
    items = []
    if recheck:
        for d in sorted(glob.glob(f"{OUT}/C*-*")):
            pid, x = os.path.basename(d).split("-")
            items.append((pid, x))
    else:
        for d in sorted(glob.glob(f"{SRC}/C*")):
            pid = os.path.basename(d)
            for x in "abcdef":
                if os.path.exists(f"{d}/{x}.patch.diff"):
                    items.append((pid, TAG + x))
    if only:
        items = [s for s in items if f"{s[0]}-{s[1]}" in only]
    results = []
    with concurrent.futures.ThreadPoolExecutor(max_workers=jobs) as ex:
        futs = {ex.submit(verify, pid, x, recheck): (pid, x) for pid, x in items}
        for f in concurrent.futures.as_completed(futs):
            r = f.result()
            results.append(r)
            print(f"{r['patch']:10} {r.get('status'):20} alarms={','.join(r.get('checks_fired') or []) or '-':12} {(r.get('kind') or '')[:60]}", flush=True)
            for l in (r.get("check_detail") or [])[:4]:
                print("      ", l[:260], flush=True)
    rp = "/verif/seeded/BENIGN_RESULTS.json"
    prev = {}
    if os.path.exists(rp):
        for r in json.load(open(rp)):
            prev[r["patch"]] = r
    for r in results:
        if recheck and r["patch"] in prev:
            prev[r["patch"]]["checks_fired"] = r.get("checks_fired")
            prev[r["patch"]]["check_detail"] = r.get("check_detail")
            # a patch that no longer applies or builds on the current HEAD must not keep its old "kept"
            prev[r["patch"]]["status"] = r.get("status")
        else:
            prev[r["patch"]] = r
    os.makedirs(OUT, exist_ok=True)
    json.dump([prev[k] for k in sorted(prev)], open(rp, "w"), indent=1)


if __name__ == "__main__":
    main()
