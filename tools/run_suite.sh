#!/bin/bash
# Runs the repository's test suite on a scratch copy of a tree (default /repo's
# working tree) and compares the set of passing tests with the stable baseline
# of /root/.vp/BASELINE.json. The copy and its build output are removed.
# usage: run_suite.sh [srcdir]
set -u
SRC=${1:-/repo}
export GOFLAGS=-mod=mod GOPROXY=off GOSUMDB=off GOTOOLCHAIN=local
unset GOWORK
T=$(mktemp -d /tmp/npv-suite-XXXXXX)
trap 'rm -rf "$T"' EXIT
rsync -a --exclude .git "$SRC"/ "$T"/repo/
(cd "$T/repo" && go test -json -vet=off -count=1 -timeout 25m ./... > "$T/out.json" 2> "$T/err.txt")
python3 - "$T/out.json" <<'PY'
import json,sys
passed=set(); failed=set()
for l in open(sys.argv[1]):
    try: e=json.loads(l)
    except: continue
    if e.get('Test') and e.get('Action') in('pass','fail'):
        k=e['Package']+'::'+e['Test']
        (passed if e['Action']=='pass' else failed).add(k)
base=set(json.load(open('/root/.vp/BASELINE.json'))['stable_pass'])
missing=sorted(base-passed)
print(f"passed={len(passed)} failed={len(failed)} baseline={len(base)} baseline_missing={len(missing)}")
for m in missing[:40]: print("  MISSING-FROM-PASS:",m)
newfail=sorted(f for f in failed if f in base)
sys.exit(1 if missing else 0)
PY
rc=$?
if [ $rc -ne 0 ]; then tail -5 "$T/err.txt"; fi
exit $rc
