#!/bin/bash
# full regression of the checker itself: unchanged tree, variants, seeded changes, benign refactorings, sweeps
cd /verif
echo "== unchanged tree"; ./bin/npverif check -all | grep -v "^C[0-9]* quick" | grep -v "^KNOWN-FINDING" | cut -c1-250
echo "== variants (not detected / false alarms)"; ./bin/npverif variants 2>&1 | grep -v " detected \| silent(benign) " | cut -c1-200
echo "== seeds"; python3 tools/seed_verify.py --recheck --jobs 10 2>&1 | tail -4
echo "== benign"; python3 tools/benign_verify.py --recheck --jobs 10 2>&1 | tail -40
if [ "${1:-}" = "sweeps" ]; then for k in noop-first noop-last noop-each noop-before-return rename-locals rename-members guard-invert else-flatten ifinit-split switch-to-if ret-local arg-local cond-local return-swap if-to-switch lit-split; do echo "== sweep $k"; ./bin/npverif sweep $k 2>&1 | tail -3; done; fi
